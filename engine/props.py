# Property table for the check driver: which harnesses decide which property.
A = dict  # alias

TRUST = ['g++ 12 and its ASan/UBSan run-times', 'the harness engines under /verif/engine (BFS with 128-bit state hashing, process isolation)',
         'std:: containers used as reference models']

PROPS = {
    'C06': A(level='model_checking',
             harnesses=[A(src='harness/c06_rbtree.cpp', san='asan')],
             budget=A(quick=150, thorough=2400),
             bounds=A(quick='rbtree: pool N=5, all 3^5 key assignments, + N=7 distinct keys (asc/desc/mixed); rbtree_order N=7 with insert(before, x) for every before (1.27 million states); a comparator object with state (descending); insert/remove histories of any length (fixpoint); grow-then-shrink: every insertion order of 11 distinct keys, then every removal order of every tree so reached (thorough: 13)',
                      thorough='rbtree: pool N=6, all 3^6 key assignments, + N=8 distinct; rbtree_order N=8; fixpoint'),
             assumptions=TRUST),
}

NOT_YET = {}

PROPS['C07'] = A(level='model_checking',
    harnesses=[A(src='harness/c07_interval.cpp', san='asan')],
    budget=A(quick=150, thorough=1500),
    bounds=A(quick='configs (endpoint universe {0..U}, copies c of every interval, <=M stored, f=1 removed node object re-created / f=0 re-used stale): U2c2M5f1 U3c1M7f1 U4c1M4f1 U1c3M6f1 U2c1M5f0 U1c2M4f0; insert/remove histories of any length (fixpoint); every query -1<=lb<=ub<=U+1 and every 1-arg query in every distinct state; the same with an endpoint type whose move empties its source (U3c1M4); the U3c1 trees also over negative (-20) and mixed-sign (-2) endpoint universes',
             thorough='U2c2M6f1 U3c1M7f1 U3c2M5f1 U4c1M6f1 U5c1M4f1 U1c3M7f1 U2c1M6f0 U1c3M5f0 U1c2M4f0 U3c1M2f0; movable endpoint U3c1M5; fixpoint; all queries in every distinct state'),
    assumptions=TRUST)
PROPS['C08'] = A(level='model_checking',
    harnesses=[A(src='harness/c08_pairing.cpp', san='asan')],
    budget=A(quick=150, thorough=1500),
    bounds=A(quick='N=6 nodes, every priority multiset over {0,1,2}; push/pop/remove histories of any length (fixpoint); pop/remove of a node with 10^3, 2*10^4 and 10^5 children on a 256 KiB stack',
             thorough='N=7 nodes, every priority multiset over {0,1,2}, plus N=8 for three balanced multisets; fixpoint; up to 4*10^5 children'),
    assumptions=TRUST)

SEQ_H = [A(src='harness/c13_seq.cpp', san='asan')]
PROPS['C13'] = A(level='model_checking', harnesses=SEQ_H, budget=A(quick=150, thorough=1500),
    bounds=A(quick='two slots per container type; vector<int|Tracked> depth 5 sizes<=7; small_vector<.,2|4> depth 5; dyn_array depth 4 sizes 0..3; stack depth 10; list depth 9; intrusive_list fixpoint over 5 nodes/2 lists; vector == / != for every pair of sequences of length <=2 over double, float (incl. +0/-0/NaN), a key with coarser equality and a padded struct; emplace_back both from the constructor argument and from an lvalue of the element type',
             thorough='vector depth 7 sizes<=15; small_vector depth 6-7 sizes<=11; dyn_array depth 5; stack depth 16; list depth 14; intrusive_list fixpoint over 6 nodes'),
    assumptions=TRUST)
PROPS['C13']['harnesses'] = SEQ_H + [A(src='harness/c13_ilist.cpp', san='asan')]

HM_H = [A(src='harness/c14_hashmap.cpp', san='asan')]
PROPS['C14'] = A(level='model_checking', harnesses=HM_H, budget=A(quick=150, thorough=1500),
    bounds=A(quick='6 hash functions returning 64-bit values (identity, constant, low bit, x10, a 64-bit mix with significant high bits, a negative/sign-extended one) x 12 start states (pre-filled to 0,8,9,10,11,19,20,21,39,40 entries; filled to 12/21 and emptied) x all histories of depth 4 (5 from empty) over insert(const&/&&)/operator[]/operator[]=/remove on a 5-key alphabet of present and absent keys; get/find/const find/size/empty/iteration for every key of the universe after every transition; the same for the library functors frg::hash<int> (negative keys), frg::hash<int64_t>, frg::hash<uint64_t> (keys above 2^32) and frg::hash<T*> from 5 start states each; find(a)==find(b) for every pair of present keys, position find(k) met exactly once on a walk from begin(); the caller-side hasher object overwritten after the map is built',
             thorough='7 hash functions, depth 5 (6 from empty)'),
    assumptions=TRUST)

HOLD_H = [A(src='harness/c17_holders.cpp', san='asan')]
PROPS['C17'] = A(level='model_checking', harnesses=HOLD_H, budget=A(quick=150, thorough=900),
    bounds=A(quick='two slots each of optional<int|Tracked|MoveOnly|CopyOnly|Counted (an element with an observable use count)>, expected<Err,Tracked|int>, variant<Tracked,TrackedB,int>, manual_box<Tracked>; every constructor/assignment/emplace/unwrap/map/apply in every (destination,source) state combination, histories of any length (fixpoint); tuple shapes vs std::tuple; constructor selection of emplace/initialize for 8 argument shapes; expected<E,void>, FRG_TRY, eternal; value-initialisation of scalar/aggregate payloads on re-initialisation; converting assignment from the first member of the held object',
             thorough='same (the spaces are closed completely already)'),
    assumptions=TRUST)

PROPS['C16'] = A(level='model_checking',
    harnesses=SEQ_H + HM_H + HOLD_H + [A(src='harness/c16_owners.cpp', san='asan')],
    budget=A(quick=170, thorough=1500),
    bounds=A(quick='lifetime registry + tracking allocator as a second oracle over the C13/C14/C17 explorations (same bounds), plus unique_ptr / unique_memory / construct+destruct helpers to fixpoint; after EVERY transition all owners are destroyed and the registries must be empty; unique_ptr with an element whose destructor clears its owner if the owner still designates it',
             thorough='same harnesses at their thorough bounds'),
    assumptions=TRUST)

RX_H = [A(src='harness/c09_radix.cpp', san='asan')]
PROPS['C09'] = A(level='model_checking', harnesses=RX_H, budget=A(quick=170, thorough=1500),
    bounds=A(quick='every subset S, |S|<=3, of a 20-key alphabet (0, 2^64-1, 1<<(60-4j) for j=0..15, 2<<60, 2: pairs first differ at every nibble position); insert/find_or_insert/erase histories over S of any length (fixpoint); find() of every key of S and of 32 single-nibble neighbours per key, and full iteration, after every transition; deep and wide trees: full-depth paths (16 keys, inner node at every depth) in 4 insertion orders, sparse sets, full leaves and inner nodes: find, absent neighbours at every nibble, iteration after every insert/erase/re-insert',
             thorough='every subset of size <=3 of a 41-key alphabet (adds 2<<(60-4j), 15, 2^64-16, 8<<60, 3) plus every 4-subset of the 20-key alphabet; fixpoint'),
    assumptions=TRUST)
PROPS['C16']['harnesses'] = PROPS['C16']['harnesses'] + RX_H

_MT_H = [A(src='harness/c05_slab_mt.cpp', san='asan', sched=True), A(src='harness/c05_slab_mt.cpp', san='tsan', sched=True)]
SLAB_H = [A(src='harness/c01_slab.cpp', san='asan', opt='-O2', tag='-p%d' % i, flags=['-DSLAB_PART=%d' % i]) for i in range(4)]
HUGE_H = [A(src='harness/c03_slab_huge.cpp', san='asan', opt='-O2')]
SLAB_B = A(quick='policy configs: tiny (page 256, slab=sb 4 KiB, 8 classes; aligned map / one-argument map with bases at 3 offsets / no poison hooks), split (slab 2 KiB < sb 4 KiB, aligned and one-argument map), odd (slab 7 pages, sb 8 pages, largest class 2 pages), defaults (4 KiB/256 KiB/13 classes, both map flavours). (a) alloc/free/deallocate/realloc/realloc(null) histories to FIXPOINT (any length) over small size alphabets with <=2..5 live blocks; (b) all histories to depth 5 (4 odd, 3 defaults) over the full 5-7 size alphabets with <=3..4 live blocks; (c) size sweep: every request 0..largest class+2 pages and every size within +-2 of a page multiple up to 3 superblocks+1 page from 3 base states, every realloc pair over the class/page boundaries; (c2) churn: per size class x request at both ends of the class (and 0) x {free, deallocate(p,n), realloc(p,0)}: 2*blocks-per-slab+3 allocate/release cycles with one live block (tiny configs all classes, default config the 8-byte class: 65513 cycles); 16 KiB-page configurations in the sweeps; every swept realloc followed by a second, moving realloc and, after an in-place shrink, a regrow to the page-rounded size; (c3) whole slabs: per size class one block more than a slab holds, all live and written, every other freed, refilled, all freed (tiny configs all classes; default config classes with <= 1100 blocks per slab, thorough 5000)',
           thorough='same with more fixpoint alphabets at 3 live blocks, depth 7 (6 odd, 5 defaults), sweeps from all base states')
SLAB_HUGE = A(quick='; (e) requests around 2^31, 2^32, 1.5*2^32 and 2^33 bytes (13 offsets -8192..+8192 each, plus 5 GiB+12345): allocate / second block / free, realloc from 24, 48, 40000 and 300000 patterned bytes up and down again, realloc(null), sized deallocate, x {two-argument map, one-argument map} x {with, without poison hooks}, over an address-space-only policy (212 cases)', thorough='; (e) the same plus 75 sizes around every multiple of 2^31 up to 2^35')
for pid, extra in (('C01', ''), ('C02', ''), ('C03', '')):
    PROPS[pid] = A(level='model_checking', technique='explicit-state model checking of the real implementation (BFS over operation histories with state hashing, exhaustive size sweeps) plus stateless model checking of interleaved histories (preemption-bounded schedule enumeration under a serialising scheduler, ThreadSanitizer over the same schedules)', harnesses=SLAB_H + _MT_H + HUGE_H, budget=A(quick=170, thorough=1700), bounds=(A(quick=SLAB_B['quick'] + '; (d) interleaved histories: 4 two/three-thread scripts on one slab under the serialising scheduler, all schedules with <=2 preemptions (H11: 3), ASan+oracles and ThreadSanitizer' + SLAB_HUGE['quick'], thorough=SLAB_B['thorough'] + '; scheduler scripts with <=3 (H11: 4) preemptions' + SLAB_HUGE['thorough']) if pid == 'C01' else A(quick=SLAB_B['quick'] + '; (d) the content/footprint (C02) resp. page-accounting/region (C03) oracles over 2-3 scheduler scripts with <=2 preemptions, ASan and ThreadSanitizer' + SLAB_HUGE['quick'], thorough=SLAB_B['thorough'] + '; scheduler scripts with <=3 preemptions' + SLAB_HUGE['thorough'])), assumptions=TRUST + ['ASan manual poisoning is conservative at 8-byte granularity'])
PROPS['C04'] = A(level='fault_enumeration', harnesses=SLAB_H, budget=A(quick=170, thorough=1700),
    bounds=A(quick='the C01 explorations with one more environment answer: at every op that can call Policy::map, the call is failed (<=1 failure per history), either the first or the second map() call of the operation; every reachable state within the bounds is a failure point; plus the same with the policy freeing a live block of the pool from inside the failing map() call (what a concurrent free during the unlocked map() amounts to); a request that a free object of its class can serve must not fail when map() fails; poison hooks on unmapped addresses inside a failing operation', thorough='<=2 failures per history'),
    rule='cases = (history, failed map call) pairs enumerated by BFS over alloc/realloc ops with a failing-map variant; distinct = distinct canonical states reached; non-trivial = the failing variant actually reached map()',
    assumptions=TRUST)

STR_H = [A(src='harness/c15_strings.cpp', san='asan')]
PROPS['C15'] = A(level='exploration', engine='enumerate', harnesses=STR_H, budget=A(quick=150, thorough=1200),
    bounds=A(quick='all 121 strings of length <=4 over {a,b,NUL}: every constructor/copy/assign/swap/resize(0..len+2)/push_back/+=/+ /find_first(all c, all from)/find_last/sub_string(all from,n incl. out of range and SIZE_MAX wrap)/hash; all 14 641 ordered pairs: ==, compare (both overloads), +, +=, starts_with, ends_with, find_first_of; compare transitivity over all triples of strings <=3; to_number<int|unsigned|long|uint64_t|uint8_t> over {0,1,9,a}^<=5 + type maxima; char32_t strings of length 0..5; BFS depth 4 of mutation sequences on two slots (+=, push_back, resize, assign, swap, +, move-assign and move-construct from the other slot: the source must stay a well-formed string)',
             thorough='strings of length <=5 (364; 132 496 pairs); triples over length <=4; to_number inputs of length <=6; sequences depth 5'),
    rule='cases = every input of the stated finite domains, enumerated exhaustively (odometer over the alphabet); each is distinct by construction; non-trivial = all of them (every case exercises at least one library call against the std::string reference); source data lives in exact-size buffers ending at a PROT_NONE page, owned data in exact-size ASan heap blocks',
    technique='exhaustive bounded enumeration of all inputs (and BFS over mutation sequences) executed on the real implementation against std::string',
    assumptions=TRUST)
PROPS['C16']['harnesses'] = PROPS['C16']['harnesses'] + STR_H

PROPS['C18'] = A(level='exploration', engine='enumerate', harnesses=[A(src='harness/c18_misc.cpp', san='asan', tag='-p%d' % i, flags=['-DC18_PART=%d' % i]) for i in range(5)], budget=A(quick=150, thorough=1500),
    bounds=A(quick='bitset<N> for N in 1..10 (every one of the 2^N values x every single-bit op at every index, whole-set ops, ~, every shift amount 0..N+70 for <<= >>= << >>, every operand pair for &= |= ^= & | ^ == (N<=8; 147 operands for N=9,10), construction from every integer 0..4*2^N-1 and boundary integers) and N in {31,32,33,63,64,65,66,127,128,129,130,191,192,193,253,256} over boundary patterns (single bits, prefix/suffix masks, word boundaries, alternating) incl. depth-2 shift/flip sequences; array<int,N> N in {1..5,17}; mt19937 vs std::mt19937 1500 draws for seeds 0..4095 + boundary seeds; pcg_basic32 vs reference for 138 seeds x 5 sequences incl. 9 bounds; insertion_sort on every array over {0,1,2} and every permutation up to length 7, both comparators',
             thorough='adds N in {11,12,257,319,320}, all operand pairs for N=9,10, seeds 0..65535, sort length 8'),
    rule='cases = every point of the stated finite domains, enumerated exhaustively; distinct by construction; bitset objects sit between ASan-poisoned pads and are built over 0xCD-filled storage so stray writes and uninitialised words are visible',
    technique='exhaustive bounded enumeration of the (state x operation) product of bitset<N> and of all small inputs, executed on the real implementation against std:: references',
    assumptions=TRUST + ['std::bitset, std::array, std::mt19937 as references; pcg32 reference transcribed from pcg-c-basic'])

PROPS['C19'] = A(level='exploration', engine='enumerate', harnesses=[A(src='harness/c19_format.cpp', san='asan')], budget=A(quick=150, thorough=1500),
    bounds=A(quick='printf: every ISO-defined flag subset of {-,+,space,#,0,apostrophe} x width in {absent,0,1,2,3,5,8,11,20,64,70} (literal or *) x precision in {absent,".",0,1,2,3,5,8,11,20,64,70} (literal or .*) x length in {none,hh,h,l,ll,z,t,j} x conversion in {d,u,o,x,X} (i: default and hh) x 8-11 boundary values per type (0, +-1, +-42, min, max, min+1, max-1, out-of-range for hh/h), negative * arguments; %c, %s (embedded NUL, exact-size unterminated source with bounding precision), %p, %%, text; positional n$ permutations. the apostrophe flag under 9 locale grouping strings x 3 separators x 16 flag subsets x 9 widths x 7 precisions x 26 magnitudes x {d,i,u} against the lconv/POSIX grouping rule. fmt: every spec string of length <=4 over {0,1,9,:,b,c,d,i,o,x,X,h} with 1-3 int arguments from 3 value triples + char arguments -128..127 as integers and as characters + string arguments + 20 malformed shapes. logger: Limit in {2,3,4,8,128}, every message length 0..3*Limit+2 in 3 append modes',
             thorough='printf widths and precisions 0..70 in full, i with every length modifier; fmt specs of length <=5'),
    rule='cases = every point of the stated product grammar / every spec string, enumerated exhaustively; each (directive, argument values) pair is distinct by construction; all are non-trivial (each is compared byte for byte with glibc snprintf in the C locale, resp. with an independent interpreter of the documented {}-grammar)',
    technique='exhaustive enumeration of the directive product grammar executed on the real implementation against glibc snprintf / a reference interpreter',
    assumptions=TRUST + ['glibc snprintf in the C locale as the embodiment of ISO C for the ISO-defined directive space'])

PROPS['C20'] = A(level='exploration', engine='enumerate', harnesses=[A(src='harness/c20_parsers.cpp', san='asan')], budget=A(quick=150, thorough=1500),
    bounds=A(quick='printf_format+do_printf_*: every string of length <=5 over {%,d,s,c,x,p,l,h,z,*,.,$,0,1,9,-,+,#,space,a} and every string of length <=4 over {%,f,F,e,g,L,j,t,o,u,X,i,b,n,apostrophe,.,*,1,l,h,#} with a hand-built va_list over an exact-size guarded slot array, each once with a universal argument value and once with all-zero slots (null strings, zero widths); 20 classes of floating-point values x 64 flag subsets x widths x precisions through a real variadic call; fmt(): every string <=6 over {{,},:,0,1,9,x,c,h,a} with 0-2 arguments of 4 type lists; parse_arguments: every string <=7 over {space,quote,=,f,o,1,9,x} against 6 option tables; to_number<int|unsigned|long|uint64_t|int8_t|short>: every string <=6 over {0,1,9,-,+,space,a}; plus digit runs of length 7..25 at every numeric position of every grammar and the decimal images of all type limits +-1; sequences of complete directives: 31 directives (13 plain, 18 with a length modifier hh h l ll z t j L) singly, all 961 ordered pairs and 2400 triples, every argument exactly the object its directive is entitled to (slots ending at a guard page, exactly-sized guarded narrow/wide strings), exact slot consumption',
             thorough='printf <=6, fmt <=8, cmdline <=8, to_number <=8; all 29791 directive triples'),
    rule='cases = every byte string of the stated alphabets up to the length bound (odometer enumeration), each distinct; non-trivial = all; inputs live in exact-size buffers ending at a PROT_NONE page; oracle = termination, no ASan/UBSan report (signed overflow included), no fault, sink/target canaries intact, va_list cursor within the slots the directives account for; stopping in frg_panic is a legal outcome',
    technique='exhaustive enumeration of all inputs up to a length bound executed on the real parsers under ASan/UBSan with guard pages',
    assumptions=TRUST + ['x86-64 SysV va_list layout'])

def SCHED(src, **kw):
    return [A(src=src, san='asan', sched=True, **kw), A(src=src, san='tsan', sched=True, **kw)]
PROPS['C12'] = A(level='model_checking', engine='sched', harnesses=SCHED('harness/c12_spin.cpp') + [A(src='harness/c12_guards.cpp', san='asan')], budget=A(quick=150, thorough=1500),
    bounds=A(quick='ticket_spinlock and simple_spinlock, every __atomic builtin and spin hint a scheduling point: 2 threads x 1 round: ALL interleavings; 2 threads x 2 rounds: ALL interleavings (simple) / preemption bound 5 (ticket); the ticket lock also started at the wrap-around of its 32-bit counters (2x1 all, 2x2 bound 3); 3 threads x 1 round: bound 2; every __atomic builtin the header could use (load, store, exchange, fetch_*, compare_exchange, test_and_set, clear) is hooked; each explored twice (ASan+vector clocks, and ThreadSanitizer). Guards: unique_lock/shared_lock/QS lock_guard operation histories to fixpoint; the three guard types also over a byte-aligned mutex type at odd addresses',
             thorough='ticket 2x2 bound 7, 3x1 bound 3, 4x1 and 3x2 bound 2'),
    technique='stateless model checking: exhaustive preemption-bounded enumeration of thread schedules of the real implementation under a serialising scheduler (CHESS style), vector-clock happens-before oracle, ThreadSanitizer over the same schedules; explicit-state BFS for the guards',
    assumptions=TRUST + ['interleaving (sequentially consistent) semantics; memory-order defects are caught as missing happens-before edges (vector clocks, TSan), not by enumerating weak-memory executions'])

PROPS['C05'] = A(level='model_checking', engine='sched', harnesses=SCHED('harness/c05_slab_mt.cpp') + SLAB_H[:2], budget=A(quick=170, thorough=1700),
    bounds=A(quick='slab_pool<tiny policy, scheduler mutex>: 8 thread scripts (2-4 threads, 1-4 pool calls each, all on shared size classes: both threads find a class empty; race for the last free object while a third frees into the slab; cross-thread free through a mailbox; realloc across classes; large frames vs. slab creation; unaligned map; full slab refill), every lock/unlock a scheduling point, all schedules with <=3 preemptions; each script explored with ASan+oracles and again under ThreadSanitizer; 3 scripts with the pool built over frg::ticket_spinlock (<=1 preemption) / frg::simple_spinlock (<=4 preemptions), every atomic builtin of the lock a scheduling point; sequential part for the clause that the policy may itself use the pool: BFS over histories in which the policy frees a live block through the pool from inside map(), with map succeeding or failing (3 configurations, depth 5 / fixpoint); a pool over ticket locks whose counters stand at 0xFFFFFFFF (wrap during the script)',
             thorough='<=4 preemptions; H1 with all interleavings; three allocators; two classes'),
    technique='stateless model checking: exhaustive preemption-bounded enumeration of thread schedules of the real slab_pool under a serialising scheduler, oracles on every schedule, ThreadSanitizer over the same schedules',
    assumptions=TRUST + ['plain memory accesses are not scheduling points; data-race freedom is checked separately by ThreadSanitizer on every explored schedule', 'interleaving semantics'])

PROPS['C10'] = A(level='model_checking', engine='sched', harnesses=SCHED('harness/c10_radix_mt.cpp'), budget=A(quick=170, thorough=1700),
    bounds=A(quick='rcu_radixtree with std::atomic swapped for a scheduling-point atomic: 5 scripts of one writer (2-3 insert/erase ops covering first insert, root split, split below an inner node, second key in a leaf, erase, re-insert) and one reader (2 finds), every atomic load/store a scheduling point, all schedules with <=2 preemptions; vector-clock check that the value construction happens-before the reader; same schedules under ThreadSanitizer; plus readers probing never-inserted keys that differ from a stored key only in a skipped nibble (S10/S11) and a path without compression, 16 nodes deep (S12); two concurrent readers on keys in different leaves (S13)',
             thorough='<=3 preemptions, two readers, 5-op writer, single insert vs find with all interleavings'),
    technique='stateless model checking: exhaustive preemption-bounded enumeration of schedules at atomic-access granularity on the real rcu_radixtree, linearisation oracle on the recorded call/return history, vector-clock happens-before oracle, ThreadSanitizer over the same schedules',
    assumptions=TRUST + ['interleaving semantics; ordering defects are detected as missing happens-before edges (vector clocks, TSan)'])

PROPS['C11'] = A(level='model_checking', engine='sched', harnesses=[A(src='harness/c11_qs_seq.cpp', san='asan', flags=['-fno-access-control'])] + SCHED('harness/c11_qs_mt.cpp'), budget=A(quick=170, thorough=1700),
    bounds=A(quick='(A) whole-operation BFS: 1-3 agents, up to 3 barriers per agent, every history of online/offline/quiescent_state/await_barrier/run to depth 24/15/14/13/12 (1 agent / 2 agents x 2 nodes / 2x3 / 3x1 / 3x2), coverage-set safety oracle, callback poisons its node, bounded liveness (5 fair rounds) from every state; (B) threads: 8 scripts (registrar vs worker, quiescent_barrier vs worker, late join/early leave, two registrars, deferred period restarted, worker stays online for callback / for barrier, two concurrent await_barrier calls with an older barrier pending [<=3 preemptions]), every atomic access and mutex operation a scheduling point, all schedules with <=2 preemptions, interval-semantics safety oracle, vector-clock happens-before oracle, termination; same schedules under ThreadSanitizer; (C) churn liveness: 1-3 agents x registrar x 3 presence patterns, one new barrier registered per round for 17 rounds, every barrier must fire within 6 rounds',
             thorough='(A) depths 28/17/16/15/14; (B) <=3 preemptions, three agents, two barriers of one agent, barrier vs barrier'),
    technique='explicit-state BFS over operation histories plus stateless preemption-bounded schedule enumeration of the real qs.hpp under a serialising scheduler with vector-clock happens-before and ThreadSanitizer oracles',
    assumptions=TRUST + ['interleaving semantics; ordering defects are detected as missing happens-before edges'])
