# Property table for the check driver: which harnesses decide which property.
A = dict  # alias

TRUST = ['g++ 12 and its ASan/UBSan run-times', 'the harness engines under /verif/engine (BFS with 128-bit state hashing, process isolation)',
         'std:: containers used as reference models']

PROPS = {
    'C06': A(level='model_checking',
             harnesses=[A(src='harness/c06_rbtree.cpp', san='asan')],
             budget=A(quick=150, thorough=1500),
             bounds=A(quick='rbtree: pool N=5, all 3^5 key assignments, + N=7 distinct keys (asc/desc/mixed); rbtree_order N=5; insert/remove histories of any length (fixpoint)',
                      thorough='rbtree: pool N=6, all 3^6 key assignments, + N=8 distinct; rbtree_order N=6; fixpoint'),
             assumptions=TRUST),
}

NOT_YET = {}
