/* Engine B core interface (C). */
#pragma once
#ifdef __cplusplus
extern "C" {
#endif
#define VS_MAX_THREADS 8
#define VS_MAX_LOCKS 64
#define VS_MAX_POINTS 8192
enum vs_kind { VS_START = 0, VS_LOAD, VS_STORE, VS_RMW, VS_LOCK, VS_UNLOCK, VS_PAUSE, VS_YIELD, VS_EVENT, VS_WAITFLAG /* blocked until *(int*)addr != 0 */ };
enum vs_status { VS_RUNNING = 0, VS_OK, VS_DEADLOCK, VS_LIVELOCK, VS_HORIZON, VS_DIVERGED, VS_VIOLATION, VS_PANIC };
struct vs_point_rec { unsigned char nenabled, cur_enabled, chosen, tid, kind; const void *addr; };
struct vs_trace {
	int npoints, status, parked, auto_yields;
	struct vs_point_rec pts[VS_MAX_POINTS];
};
extern struct vs_trace vs_tr;
extern int vs_active;
void vs_begin(const unsigned char *prefix, int prefix_len, int horizon, int read_only_limit);
int vs_spawn(void (*fn)(void *), void *arg);
void vs_run(void);
void vs_point(int kind, const void *addr);
void vs_abort_execution(int status);
int vs_self(void);
int vs_locks_held(void);
#ifdef __cplusplus
}
#endif
