// Shared test world: tracking allocator, lifetime-registering element type.
// Violations detected inside destructors / noexcept paths cannot be thrown; they are parked in
// verif::pending() and raised by the engine right after the operation returns.
#pragma once
#include "common.hpp"
#include <map>
#include <set>
#include <optional>

namespace verif {

// ---------------------------------------------------------------------------------------------
struct Tracked;
struct LifeRegistry {
	std::set<const void *> live;
	uint64_t constructions = 0, destructions = 0;
	void clear() { live.clear(); constructions = destructions = 0; }
};
inline LifeRegistry &life() { static LifeRegistry r; return r; }

// ---------------------------------------------------------------------------------------------
// Tracking allocator: exact-size blocks from malloc (ASan red zones on both sides).
struct AllocRegistry {
	std::map<void *, size_t> blocks;
	std::map<void *, int> owner;     // allocator instance (TrackAlloc::id) a block came from; 0 = anonymous
	uint64_t allocs = 0, frees = 0;
	size_t fail_after = (size_t)-1;
	void clear() {
		for(auto &b : blocks) ::free(b.first);
		blocks.clear(); owner.clear(); allocs = frees = 0;
	}
	size_t outstanding() const { return blocks.size(); }
	size_t size_of(void *p) const { auto it = blocks.find(p); return it == blocks.end() ? (size_t)-1 : it->second; }
};
inline AllocRegistry &heap() { static AllocRegistry r; return r; }

struct TrackAlloc {
	int id = 0;      // instances with different non-zero ids are different allocators: a block must go back to the one it came from
	TrackAlloc() = default;
	explicit TrackAlloc(int id_) : id(id_) {}
	void *allocate(size_t n) {
		void *p = ::malloc(n ? n : 1);
		memset(p, 0xA5, n);   // deterministic junk
		heap().blocks[p] = n;
		if(id) heap().owner[p] = id;
		heap().allocs++;
		return p;
	}
	void release(void *p, const char *how) {
		auto &r = heap();
		auto it = r.blocks.find(p);
		if(it == r.blocks.end()) { note("C16", std::string("alloc:") + how + "-of-unknown-block", std::string(how) + " of a pointer that is not a live block (double free or foreign pointer)"); return; }
		if(auto ow = r.owner.find(p); ow != r.owner.end()) {
			if(id && ow->second != id) note("C16", "alloc:returned-to-another-allocator", "a block obtained from allocator #" + std::to_string(ow->second) + " was given back to allocator #" + std::to_string(id));
			r.owner.erase(ow);
		}
		// any element still alive inside the block?
		auto &lv = life().live;
		auto lo = lv.lower_bound(p);
		bool leaked = false;
		while(lo != lv.end() && (const char *)*lo < (const char *)p + it->second) { lo = lv.erase(lo); leaked = true; }
		if(leaked) note("C16", "life:block-freed-with-live-elements", "a block was returned to the allocator while element objects inside it were still alive (never destroyed)");
		memset(p, 0xDD, it->second);
		::free(p);
		r.blocks.erase(it);
		r.frees++;
	}
	void deallocate(void *p, size_t n) {
		if(!p) return;
		auto it = heap().blocks.find(p);
		if(it != heap().blocks.end() && it->second != n)
			note("C16", "alloc:deallocate-size-mismatch", "deallocate(p, " + std::to_string(n) + ") but the block was allocated with " + std::to_string(it->second));
		release(p, "deallocate");
	}
	void free(void *p) {
		if(!p) return;
		release(p, "free");
	}
};

// ---------------------------------------------------------------------------------------------
// Element type that registers its own lifetime.
struct Tracked {
	int v;
	const Tracked *self;

	void born(const char *how) {
		auto &r = life();
		if(!r.live.insert(this).second) note("C16", std::string("life:constructed-over-live:") + how, std::string("an element was ") + how + "-constructed over an object that is still alive");
		self = this; r.constructions++;
	}
	static void use(const Tracked *p, const char *how) {
		auto &r = life();
		if(!r.live.count(p)) { note("C16", std::string("life:use-outside-lifetime:") + how, std::string(how) + " an object outside its lifetime (never constructed or already destroyed)"); return; }
		if(p->self != p) note("C16", std::string("life:relocated-bytewise:") + how, std::string(how) + " an object whose bytes were copied from another address without running a constructor");
	}
	Tracked() : v(0) { born("default"); }
	Tracked(int x) : v(x) { born("value"); }
	Tracked(const Tracked &o) : v(0) { use(&o, "copy-from"); v = o.v; born("copy"); }
	Tracked(Tracked &&o) noexcept : v(0) { use(&o, "move-from"); v = o.v; o.v = -7; born("move"); }
	Tracked &operator=(const Tracked &o) { use(this, "assign-to"); use(&o, "assign-from"); v = o.v; return *this; }
	Tracked &operator=(Tracked &&o) noexcept { use(this, "assign-to"); use(&o, "move-assign-from"); v = o.v; if(&o != this) o.v = -7; return *this; }
	~Tracked() {
		auto &r = life();
		auto it = r.live.find(this);
		if(it == r.live.end()) { note("C16", "life:destroyed-outside-lifetime", "destructor ran on an object that is not alive (double destruction or never constructed)"); return; }
		if(self != this) note("C16", "life:relocated-bytewise:destroy", "destructor ran on an object whose bytes were relocated without a constructor");
		r.live.erase(it); r.destructions++;
		// make a destroyed object visibly different (a volatile store: lifetime-end dead-store elimination must not drop it)
		*(volatile int *)&v = -99;
	}
	// reading the value is a use
	int get() const { use(this, "read"); return v; }
	bool operator==(const Tracked &o) const { return get() == o.get(); }
	bool operator!=(const Tracked &o) const { return get() != o.get(); }
};

inline int val(const Tracked &t) { return t.get(); }
inline int val(int x) { return x; }

// move-only / copy-only variants
struct MoveOnly : Tracked {
	MoveOnly() = default;
	MoveOnly(int x) : Tracked(x) {}
	MoveOnly(MoveOnly &&) = default;
	MoveOnly &operator=(MoveOnly &&) = default;
	MoveOnly(const MoveOnly &) = delete;
	MoveOnly &operator=(const MoveOnly &) = delete;
};
struct CopyOnly : Tracked {
	CopyOnly() = default;
	CopyOnly(int x) : Tracked(x) {}
	CopyOnly(const CopyOnly &o) : Tracked(static_cast<const Tracked &>(o)) {}
	CopyOnly &operator=(const CopyOnly &o) { Tracked::operator=(static_cast<const Tracked &>(o)); return *this; }
};

// Implementation-side facts for canonical forms: number of live elements, outstanding blocks and bytes.
inline void world_canon(std::string &out) {
	size_t bytes = 0;
	for(auto &b : heap().blocks) bytes += b.second;
	char buf[64]; snprintf(buf, sizeof buf, "L%zu,B%zu,%zu;", life().live.size(), heap().blocks.size(), bytes);
	out += buf;
}


// ---------------------------------------------------------------------------------------------
// Memory-graph canonical form.  Public observations cannot see hidden fields (a private capacity, an
// engaged flag, a stale pointer), so two states that look equal from outside may have different
// futures once a defect is present.  graph_canon() therefore emits the raw object representation of
// the root objects and of every tracked heap block reachable from them, with every word that points
// into a root or into a tracked block replaced by (target, offset), targets numbered in discovery
// order.  Equal output => identical memory up to the addresses malloc happened to return => identical
// futures.  Stale bytes (destroyed elements, unused capacity) only make the form finer.
struct GraphCanon {
	std::vector<std::pair<const unsigned char *, size_t>> roots;
	void root(const void *p, size_t n) { roots.push_back({(const unsigned char *)p, n}); }
	void emit(std::string &out) {
		std::map<const void *, int> rank;
		std::vector<std::pair<const unsigned char *, size_t>> work;
		auto region = [&](const unsigned char *p, size_t n) {
			size_t off = 0;
			for(; off + 8 <= n; off += 8) {
				uintptr_t w; memcpy(&w, p + off, 8);
				bool done = false;
				for(size_t r = 0; r < roots.size() && !done; r++)
					if(w >= (uintptr_t)roots[r].first && w < (uintptr_t)roots[r].first + roots[r].second) { out.push_back('S'); out.push_back((char)r); uint32_t o = (uint32_t)(w - (uintptr_t)roots[r].first); out.append((const char *)&o, 4); done = true; }
				if(done) continue;
				auto &blocks = heap().blocks;
				auto it = blocks.upper_bound((void *)w);
				if(w && it != blocks.begin()) {
					--it;
					if(w >= (uintptr_t)it->first && w <= (uintptr_t)it->first + it->second) {
						auto ins = rank.insert({it->first, (int)rank.size()});
						if(ins.second) work.push_back({(const unsigned char *)it->first, it->second});
						out.push_back('P'); int rk = ins.first->second; out.append((const char *)&rk, 4); uint32_t o = (uint32_t)(w - (uintptr_t)it->first); out.append((const char *)&o, 4);
						continue;
					}
				}
				out.push_back('R'); out.append((const char *)&w, 8);
			}
			if(off < n) { out.push_back('T'); out.append((const char *)p + off, n - off); }
		};
		for(size_t r = 0; r < roots.size(); r++) { out.push_back('{'); region(roots[r].first, roots[r].second); out.push_back('}'); }
		for(size_t i = 0; i < work.size(); i++) { out.push_back('['); uint32_t n = (uint32_t)work[i].second; out.append((const char *)&n, 4); region(work[i].first, work[i].second); out.push_back(']'); }
	}
};

inline void world_reset() {
	life().clear();
	heap().clear();
	pending().reset();
}
// After every owner has been destroyed: nothing may remain.
inline void world_check_empty(const std::string &ctx) {
	if(!life().live.empty()) { size_t n = life().live.size(); life().live.clear(); throw Violation{"C16", "life:leak:" + ctx, std::to_string(n) + " element object(s) still alive after every owner was destroyed"}; }
	if(heap().outstanding()) { size_t n = heap().outstanding(); throw Violation{"C16", "alloc:leak:" + ctx, std::to_string(n) + " block(s) never returned to the allocator after every owner was destroyed"}; }
}

} // namespace verif
