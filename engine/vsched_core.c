/* Engine B core: serialising scheduler.  Exactly one harness thread runs at a time; before every
 * visible operation a thread parks in vs_point() and the scheduler (running in the parking thread)
 * picks who executes next, following a given choice prefix and then the default choice 0.
 * This file contains no frigg code and is compiled WITHOUT any sanitizer, so that the hand-offs
 * (raw futex) are invisible to ThreadSanitizer / AddressSanitizer. */
#define _GNU_SOURCE
#include <pthread.h>
#include <linux/futex.h>
#include <sys/syscall.h>
#include <unistd.h>
#include <setjmp.h>
#include <string.h>
#include <stdio.h>
#include <stdlib.h>
#include <stdint.h>
#include "vsched_core.h"

struct vs_thread {
	pthread_t th;
	volatile int futex;          /* 0 = sleep, 1 = go */
	int state;                   /* 0 unused, 1 parked at a point, 2 running, 3 done */
	int kind; const void *addr;  /* pending operation */
	int sleeping; unsigned long sleep_version;   /* disabled until the write version changes */
	unsigned long last_seen;                     /* write version at the thread's latest load */
	unsigned long yield_version;                 /* write version at the thread's previous yield */
	int ro_streak; unsigned long streak_version;  /* consecutive loads while nobody wrote anything */
	int nlocks;
	void (*fn)(void *); void *arg;
	jmp_buf jb;
};

static struct vs_thread T[VS_MAX_THREADS];
static int nthreads;
static volatile int main_futex;
static int cur = -1;                          /* thread that executed the last operation */
static unsigned long write_version;
static struct { const void *m; int owner; } locks[VS_MAX_LOCKS];
static int nlocks;

static const unsigned char *prefix; static int prefix_len;
static int horizon, ro_limit;
struct vs_trace vs_tr;
static volatile int aborting;
static int ndone;                             /* threads that have finished (atomic counter) */
static __thread int self_id = -1;
int vs_active;

static void fwait(volatile int *f) {
	while(__atomic_load_n(f, __ATOMIC_ACQUIRE) == 0)
		syscall(SYS_futex, f, FUTEX_WAIT_PRIVATE, 0, NULL, NULL, 0);
	__atomic_store_n(f, 0, __ATOMIC_RELAXED);
}
static void fwake(volatile int *f) {
	__atomic_store_n(f, 1, __ATOMIC_RELEASE);
	syscall(SYS_futex, f, FUTEX_WAKE_PRIVATE, 1, NULL, NULL, 0);
}

int vs_self(void) { return self_id; }
int vs_locks_held(void) { return self_id >= 0 ? T[self_id].nlocks : 0; }

static int lock_owner(const void *m) {
	for(int i = 0; i < nlocks; i++) if(locks[i].m == m) return locks[i].owner;
	return -1;
}
static void lock_set(const void *m, int owner) {
	for(int i = 0; i < nlocks; i++) if(locks[i].m == m) { locks[i].owner = owner; return; }
	if(nlocks < VS_MAX_LOCKS) { locks[nlocks].m = m; locks[nlocks].owner = owner; nlocks++; }
}

static int enabled(int t) {
	if(T[t].state != 1) return 0;
	if(T[t].sleeping && T[t].sleep_version == write_version) return 0;
	if(T[t].kind == VS_LOCK && lock_owner(T[t].addr) >= 0) return 0;
	if(T[t].kind == VS_WAITFLAG && *(volatile const int *)T[t].addr == 0) return 0;
	return 1;
}

static void finish_execution(int status) {
	if(vs_tr.status == VS_RUNNING) vs_tr.status = status;
}

/* wake every parked thread so that it can unwind; the last one wakes main */
static void abort_all(int me) {
	aborting = 1;
	for(int t = 0; t < nthreads; t++) if(t != me && T[t].state == 1) fwake(&T[t].futex);
}

/* Only meaningful in the thread that currently holds the baton. */
static int all_done(void) {
	for(int t = 0; t < nthreads; t++) if(T[t].state != 3) return 0;
	return 1;
}

/* A thread is finished (normally or by abort).  Several threads may get here at the same time after
 * an abort, so "who is last" is decided by an atomic counter, not by reading each other's state. */
static void leave(int me) {
	T[me].state = 3;
	if(__atomic_add_fetch(&ndone, 1, __ATOMIC_SEQ_CST) == nthreads) fwake(&main_futex);
}

/* Choose and start the next thread. `me` is the caller (-1 for main), which is parked or done. */
static int pick_next(int me) {
	int list[VS_MAX_THREADS], n = 0, cur_enabled = 0;
	if(cur >= 0 && enabled(cur)) { list[n++] = cur; cur_enabled = 1; }
	for(int t = 0; t < nthreads; t++) if(t != cur && enabled(t)) list[n++] = t;
	if(n == 0) {
		if(all_done()) { finish_execution(VS_OK); return -2; }   /* main is woken by leave() */
		/* somebody is parked but nobody can move */
		int sleepers = 0;
		for(int t = 0; t < nthreads; t++) if(T[t].state == 1 && T[t].sleeping) sleepers++;
		finish_execution(sleepers ? VS_LIVELOCK : VS_DEADLOCK);
		abort_all(me);
		if(me >= 0 && T[me].state == 1) longjmp(T[me].jb, 1);
		return -2;
	}
	int pt = vs_tr.npoints;
	if(pt >= horizon || pt >= VS_MAX_POINTS) {
		finish_execution(VS_HORIZON);
		abort_all(me);
		if(me >= 0 && T[me].state == 1) longjmp(T[me].jb, 1);
		return -2;
	}
	int choice = pt < prefix_len ? prefix[pt] : 0;
	if(choice >= n) {
		finish_execution(VS_DIVERGED);
		abort_all(me);
		if(me >= 0 && T[me].state == 1) longjmp(T[me].jb, 1);
		return -2;
	}
	int next = list[choice];
	vs_tr.pts[pt].nenabled = (unsigned char)n;
	vs_tr.pts[pt].cur_enabled = (unsigned char)cur_enabled;
	vs_tr.pts[pt].chosen = (unsigned char)choice;
	vs_tr.pts[pt].tid = (unsigned char)next;
	vs_tr.pts[pt].kind = (unsigned char)T[next].kind;
	vs_tr.pts[pt].addr = T[next].addr;
	vs_tr.npoints = pt + 1;
	/* effects of granting the pending operation */
	struct vs_thread *x = &T[next];
	x->sleeping = 0;
	switch(x->kind) {
	case VS_LOCK: lock_set(x->addr, next); x->nlocks++; x->ro_streak = 0; break;
	case VS_UNLOCK: lock_set(x->addr, -1); x->nlocks--; write_version++; x->ro_streak = 0; break;
	case VS_STORE: case VS_RMW: write_version++; x->ro_streak = 0; x->last_seen = write_version; break;
	case VS_LOAD:
		x->last_seen = write_version;
		if(x->streak_version != write_version) { x->streak_version = write_version; x->ro_streak = 0; }
		if(++x->ro_streak >= ro_limit) { x->sleeping = 1; x->sleep_version = write_version; x->ro_streak = 0; vs_tr.auto_yields++; }
		break;
	case VS_PAUSE:
		/* the thread saw a value it does not like: it is not scheduled again until somebody writes
		 * after the load that showed it that value (a write since then wakes it at once) */
		x->sleeping = 1; x->sleep_version = x->last_seen; break;
	case VS_YIELD:
		/* end of an unsuccessful loop iteration: if nobody (including the thread itself) has written
		 * anything since its previous yield, the next iteration would see exactly the same state, so
		 * the thread waits for a write; otherwise it may go on */
		if(write_version == x->yield_version) { x->sleeping = 1; x->sleep_version = write_version; }
		x->yield_version = write_version; break;
	default: break;
	}
	x->state = 2;
	cur = next;
	if(next != me) fwake(&x->futex);
	return next;
}

void vs_point(int kind, const void *addr) {
	int me = self_id;
	if(me < 0 || !vs_active) return;
	if(aborting) longjmp(T[me].jb, 1);
	T[me].kind = kind; T[me].addr = addr; T[me].state = 1;
	if(pick_next(me) != me) {
		fwait(&T[me].futex);
		if(aborting) longjmp(T[me].jb, 1);
	}
}

/* a harness oracle or the panic hook found a violation inside a thread: stop the execution */
void vs_abort_execution(int status) {
	int me = self_id;
	finish_execution(status);
	if(me < 0) return;
	abort_all(me);
	longjmp(T[me].jb, 1);
}

static void *trampoline(void *p) {
	int me = (int)(intptr_t)p;
	self_id = me;
	if(setjmp(T[me].jb) == 0) {
		/* park at the start point and tell main */
		T[me].kind = VS_START; T[me].addr = NULL; T[me].state = 1;
		__atomic_fetch_add(&vs_tr.parked, 1, __ATOMIC_SEQ_CST);
		syscall(SYS_futex, &vs_tr.parked, FUTEX_WAKE_PRIVATE, 1, NULL, NULL, 0);
		fwait(&T[me].futex);
		if(!aborting) {
			T[me].fn(T[me].arg);
			/* normal end: hand the baton on (state 3 first, so that the scheduler does not pick us) */
			T[me].state = 3;
			if(!aborting) pick_next(me);
		}
	}
	leave(me);
	return NULL;
}

void vs_begin(const unsigned char *pfx, int pfx_len, int hor, int read_only_limit) {
	memset(T, 0, sizeof T); memset(&vs_tr, 0, sizeof vs_tr); memset(locks, 0, sizeof locks);
	nthreads = 0; nlocks = 0; cur = -1; write_version = 1; aborting = 0; main_futex = 0; ndone = 0;
	prefix = pfx; prefix_len = pfx_len; horizon = hor; ro_limit = read_only_limit > 0 ? read_only_limit : 64;
	vs_tr.status = VS_RUNNING;
}

int vs_spawn(void (*fn)(void *), void *arg) {
	int id = nthreads++;
	T[id].fn = fn; T[id].arg = arg;
	return id;
}

void vs_run(void) {
	pthread_attr_t at; pthread_attr_init(&at); pthread_attr_setstacksize(&at, 256 * 1024);
	vs_active = 1;
	for(int t = 0; t < nthreads; t++)
		if(pthread_create(&T[t].th, &at, trampoline, (void *)(intptr_t)t)) { fprintf(stderr, "vsched: pthread_create failed\n"); abort(); }
	pthread_attr_destroy(&at);
	/* wait until every thread is parked at its start point */
	for(;;) {
		int p = __atomic_load_n(&vs_tr.parked, __ATOMIC_SEQ_CST);
		if(p >= nthreads) break;
		syscall(SYS_futex, &vs_tr.parked, FUTEX_WAIT_PRIVATE, p, NULL, NULL, 0);
	}
	pick_next(-1);
	fwait(&main_futex);
	for(int t = 0; t < nthreads; t++) pthread_join(T[t].th, NULL);
	if(vs_tr.status == VS_RUNNING) vs_tr.status = VS_OK;
	vs_active = 0;
}
