// Engine C: exhaustive input enumeration with guarded exact-size buffers.
#pragma once
#include "common.hpp"
#include "seqmc.hpp"
#include <sys/mman.h>

namespace verif {

// A buffer whose last byte is the last mapped byte before a PROT_NONE page: reading one byte past
// the data faults.  (ASan does not instrument mmap'd memory, the guard page does the work.)
struct GuardBuf {
	unsigned char *base = nullptr;
	size_t pages;
	GuardBuf(size_t pages_ = 1) : pages(pages_) {
		base = (unsigned char *)mmap(nullptr, (pages + 1) * 4096, PROT_READ | PROT_WRITE, MAP_PRIVATE | MAP_ANONYMOUS, -1, 0);
		mprotect(base + pages * 4096, 4096, PROT_NONE);
	}
	~GuardBuf() { munmap(base, (pages + 1) * 4096); }
	GuardBuf(const GuardBuf &) = delete;
	// place n bytes so that they end exactly at the guard page
	template<class C = char>
	C *place(const C *data, size_t n) {
		unsigned char *p = base + pages * 4096 - n * sizeof(C);
		memset(base, 0xEE, pages * 4096 - n * sizeof(C));
		if(n) memcpy(p, data, n * sizeof(C));
		return (C *)p;
	}
	// C string: the terminating NUL is the last mapped byte
	char *place_cstr(const std::string &s) { return place<char>(s.c_str(), s.size() + 1); }
};

inline std::string printable(const std::string &s) {
	std::string o = "\"";
	for(unsigned char c : s) {
		if(c == 0) o += "\\0"; else if(c == '"' || c == '\\') { o += '\\'; o += (char)c; }
		else if(c < 0x20 || c >= 0x7f) { char b[8]; snprintf(b, sizeof b, "\\x%02x", c); o += b; } else o += (char)c;
	}
	return o + "\"";
}

// all strings over `alphabet` with length <= maxlen, shortest first
template<class F>
void for_all_strings(const std::string &alphabet, size_t maxlen, F &&fn, size_t minlen = 0) {
	for(size_t len = minlen; len <= maxlen; len++) {
		std::vector<size_t> idx(len, 0);
		std::string s(len, 'x');
		for(;;) {
			for(size_t i = 0; i < len; i++) s[i] = alphabet[idx[i]];
			fn(s);
			long i = (long)len - 1;
			while(i >= 0 && ++idx[i] == alphabet.size()) { idx[i] = 0; i--; }
			if(i < 0) break;
		}
	}
}

struct Enumerator {
	InstResult res;
	std::map<std::string, std::string> skip;   // key -> how it died
	std::string default_prop;
	uint64_t tick = 0;
	bool stop = false;
	Enumerator(const std::string &name, const std::string &prop, const std::vector<CrashInfo> &crashes) : default_prop(prop) {
		res.name = name; res.fixpoint = true;
		for(auto &c : crashes) skip[c.step] = c.how;
	}
	// Evaluate one case. key must identify the case uniquely within the instance.
	template<class F>
	void eval(const std::string &key, const std::string &opclass, F &&f) {
		if(stop) return;
		if((++tick & 1023) == 0 && past_deadline()) { stop = true; res.complete = false; res.cap = "deadline"; return; }
		auto it = skip.find(key);
		if(it != skip.end()) {
			res.add_violation({default_prop, "crash:" + opclass + ":" + it->second, "process died (" + it->second + ") on input " + key}, key);
			return;
		}
		slot_set(key);
		res.evaluations++; res.distinct++;
		if(res.samples.size() < 3 || (res.evaluations % 250007) == 0) if(res.samples.size() < 6) res.samples.push_back(opclass + " " + key);
		try {
			pending().reset(); san_flag() = 0;
			f();
			raise_pending();
			if(san_flag()) { san_flag() = 0; throw Violation{default_prop, "asan:" + opclass, "AddressSanitizer report on input " + key}; }
		} catch(const Violation &v) {
			Violation w = v; if(w.prop.empty()) w.prop = default_prop;
			res.add_violation(w, key);
		} catch(const Panic &p) {
			on_panic(key, opclass, p);
		}
		san_flag() = 0;
	}
	// By default a library assertion on an input generated inside the documented precondition is a violation.
	std::function<void(const std::string &, const std::string &, const Panic &)> panic_handler;
	void on_panic(const std::string &key, const std::string &opclass, const Panic &p) {
		if(panic_handler) { panic_handler(key, opclass, p); return; }
		std::string t = p.text; size_t k = t.find("include/frg/"); if(k != std::string::npos) t = t.substr(k + 8);
		res.add_violation({default_prop, "panic:" + opclass + ":" + t.substr(0, t.find(": Assertion")), "library assertion on input " + key + ": " + t}, key);
	}
	double t0 = now_s();
	InstResult finish() { res.states = 0; res.wall = now_s() - t0; return res; }
};

#define EXPECT(cond, prop, sig, msg) do { if(!(cond)) throw ::verif::Violation{prop, sig, msg}; } while(0)

} // namespace verif
