// Engine A: breadth-first explicit-state exploration of operation histories executed on the
// REAL implementation.  A state is reached by a history of ops; it is re-created either by
// replaying the history on a fresh world (default) or by restoring a byte snapshot (harnesses
// whose whole state lives in memory they own at fixed addresses).
//
// Harness concept:
//   const char *prop() const;              default property id for panics/crashes
//   void reset();                          fresh implementation + reference model
//   void ops(std::vector<uint32_t> &out);  enabled operations in the current state (simplest first)
//   void apply(uint32_t op);               run op on implementation and reference, check the
//                                          per-operation oracle; throws verif::Violation
//   void check_state();                    state invariant (run once per distinct state)
//   void canon(std::string &out);          canonical bytes of implementation + reference state
//   std::string show(uint32_t op);
//   static constexpr bool has_snapshot;    if true: void save(std::string&), void load(const std::string&)
//   verif::InstResult *res;                engine sets it; harness may add outcomes/counters
#pragma once
#include "common.hpp"
#include <deque>
#include <unordered_set>
#include <sstream>
#include <algorithm>

namespace verif {

inline std::string hist_codes(const std::vector<uint32_t> &h) {
	std::string s;
	for(size_t i = 0; i < h.size(); i++) { if(i) s += ","; s += std::to_string(h[i]); }
	return s;
}
inline std::vector<uint32_t> parse_codes(const std::string &s) {
	std::vector<uint32_t> v;
	size_t bar = s.find('|');
	std::string t = bar == std::string::npos ? s : s.substr(0, bar);
	std::stringstream ss(t);
	std::string tok;
	while(std::getline(ss, tok, ',')) {
		while(!tok.empty() && tok.back() == ' ') tok.pop_back();
		while(!tok.empty() && tok.front() == ' ') tok.erase(tok.begin());
		if(!tok.empty()) v.push_back((uint32_t)strtoul(tok.c_str(), nullptr, 10));
	}
	return v;
}

// Defaults for harnesses.
struct HarnessBase {
	static constexpr bool has_snapshot = false;
	InstResult *res = nullptr;
	void check_state() {}
	// Destructive end-of-history check (destroy every owner, look for leaks). The engine rebuilds the
	// state afterwards.
	void final_check() {}
	void save(std::string &) {}
	void load(const std::string &) {}
};

template<class H>
std::string hist_string(H &h, const std::vector<uint32_t> &hist) {
	// "codes | human readable".  show() may depend on state, so callers build the readable part
	// while replaying; here we only have the codes and the static decoder.
	std::string s = hist_codes(hist) + " |";
	for(auto op : hist) s += " " + h.show(op);
	return s;
}

struct BfsOptions {
	int max_depth = 1 << 30;       // histories longer than this are not expanded
	uint64_t max_states = 0;       // 0 = unlimited
	int sample_every = 0;
};

// Apply one op with full error capture. Returns false (and records) on violation.
template<class H>
bool guarded_apply(H &h, uint32_t op, InstResult &res, const std::vector<uint32_t> &hist_with_op, bool state_check) {
	auto record = [&](const Violation &v) {
		Violation w = v;
		if(w.prop.empty()) w.prop = h.prop();
		res.add_violation(w, hist_string(h, hist_with_op));
	};
	try {
		san_flag() = 0;
		pending().reset();
		h.apply(op);
		raise_pending();
		if(san_flag()) {
			san_flag() = 0;
			std::string pr;
			if constexpr(requires { h.asan_prop(); }) pr = h.asan_prop();
			throw Violation{pr, "asan:" + h.show_class(op), "AddressSanitizer report during " + h.show(op)};
		}
		if(state_check) {
			try {
				h.check_state();
				raise_pending();
				if(san_flag()) { san_flag() = 0; throw Violation{"", "asan:check:" + h.show_class(op), "AddressSanitizer report in observers after " + h.show(op)}; }
			} catch(const Violation &v) {
				std::string vp = v.prop.empty() ? std::string(h.prop()) : v.prop;
				if(wanted_prop().empty() || vp == wanted_prop()) throw;
				// The state oracle that failed belongs to another property (its own check reports it).  The history ends here, but
				// the end-of-history oracle (lifetimes, leaks, allocation pairing) of the property being checked still gets its turn.
				record(v);
				try {
					san_flag() = 0; pending().reset();
					h.final_check();
					raise_pending();
					if(san_flag()) { san_flag() = 0; throw Violation{"", "asan:final:" + h.show_class(op), "AddressSanitizer report while destroying the owners after " + h.show(op)}; }
				} catch(const Violation &v2) { record(v2); } catch(const Panic &) {}
				san_flag() = 0;
				return false;
			}
		}
		return true;
	} catch(const Violation &v) {
		record(v);
	} catch(const Panic &p) {
		// strip the absolute include path to keep the signature stable
		std::string t = p.text;
		size_t k = t.find("include/frg/");
		if(k != std::string::npos) t = t.substr(k + 8);
		record(Violation{"", "panic:" + h.show_class(op) + ":" + t.substr(0, t.find(": Assertion")), "library assertion during " + h.show(op) + ": " + t});
	}
	san_flag() = 0;
	return false;
}

template<class H>
InstResult bfs(H &h, const std::string &name, const BfsOptions &opt, const std::vector<CrashInfo> &crashes) {
	InstResult res;
	res.name = name;
	h.res = &res;
	double t0 = now_s();
	std::set<std::string> skip;
	for(auto &c : crashes) {
		skip.insert(c.step.substr(0, c.step.find(" |")));
	}

	struct Node { std::vector<uint32_t> hist; std::string blob; };
	std::deque<Node> queue;
	std::unordered_set<Hash128, Hash128Hasher> seen;
	std::string cbuf;

	auto rebuild = [&](const Node &n) {
		if constexpr(H::has_snapshot) {
			h.load(n.blob);
		} else {
			h.reset();
			for(auto op : n.hist) h.apply(op);
		}
	};

	h.reset();
	try { h.check_state(); } catch(const Violation &v) { Violation w = v; if(w.prop.empty()) w.prop = h.prop(); res.add_violation(w, "|"); }
	cbuf.clear(); h.canon(cbuf);
	seen.insert(hash128(cbuf.data(), cbuf.size()));
	{
		Node root;
		if constexpr(H::has_snapshot) h.save(root.blob);
		queue.push_back(std::move(root));
	}
	res.states = 1;
	bool cut = false;
	std::vector<uint32_t> ops;
	uint64_t tick = 0;
	while(!queue.empty()) {
		Node n = std::move(queue.front());
		queue.pop_front();
		int depth = (int)n.hist.size();
		if(depth >= opt.max_depth) { cut = true; continue; }
		rebuild(n);
		ops.clear();
		h.ops(ops);
		bool dirty = false;
		for(uint32_t op : ops) {
			if((++tick & 255) == 0) {
				slot_beat();
				if(past_deadline()) { res.complete = false; res.cap = "deadline"; goto done; }
			}
			if(dirty) rebuild(n);
			dirty = true;
			std::vector<uint32_t> hh = n.hist;
			hh.push_back(op);
			std::string codes = hist_codes(hh);
			if(skip.count(codes)) {
				std::string how;
				for(auto &c : crashes) if(c.step.substr(0, c.step.find(" |")) == codes) how = c.how;
				res.add_violation({h.prop(), "crash:" + h.show_class(op) + ":" + how, "process died (" + how + ") during " + h.show(op)}, hist_string(h, hh));
				continue;
			}
			slot_set(codes + " | " + h.show(op));
			res.transitions++;
			// Harnesses whose canonical form is the raw memory of the implementation (snapshot harnesses)
			// need the state oracle only once per distinct state.  For all others canon() is built from
			// public observations, which a defect can leave unchanged while the implementation state is
			// broken, so the state oracle and the end-of-history check run on EVERY transition.
			if(!guarded_apply(h, op, res, hh, !H::has_snapshot)) continue;
			cbuf.clear(); h.canon(cbuf);
			Hash128 k = hash128(cbuf.data(), cbuf.size());
			bool isnew = seen.insert(k).second;
			bool ok = true;
			if(H::has_snapshot ? isnew : true) {
				try {
					san_flag() = 0;
					if(H::has_snapshot) {
						h.check_state();
						raise_pending();
						if(san_flag()) throw Violation{"", "asan:check:" + h.show_class(op), "AddressSanitizer report in observers after " + h.show(op)};
					}
					h.final_check();
					raise_pending();
					if(san_flag()) throw Violation{"", "asan:final:" + h.show_class(op), "AddressSanitizer report while destroying the owners after " + h.show(op)};
				} catch(const Violation &v) {
					Violation w = v; if(w.prop.empty()) w.prop = h.prop();
					res.add_violation(w, hist_string(h, hh)); ok = false;
				} catch(const Panic &p) {
					res.add_violation({h.prop(), "panic:check:" + h.show_class(op), "library assertion in observers after " + h.show(op) + ": " + p.text}, hist_string(h, hh)); ok = false;
				}
				san_flag() = 0;
			}
			if(isnew) {
				res.states++;
				if((int)hh.size() > res.max_depth) {
					res.max_depth = (int)hh.size();
					// keep the first state and the most recent deepest ones as samples
					if(res.samples.size() >= 4) res.samples.erase(res.samples.begin() + 1);
					res.samples.push_back(hist_string(h, hh));
				}
				if(!ok) continue;
				Node c;
				c.hist = std::move(hh);
				if constexpr(H::has_snapshot) h.save(c.blob);
				queue.push_back(std::move(c));
				if(opt.max_states && res.states >= opt.max_states) { res.complete = false; res.cap = "max_states"; goto done; }
			}
		}
	}
	res.fixpoint = !cut;
	if(cut) res.cap = "depth " + std::to_string(opt.max_depth);
done:
	res.wall = now_s() - t0;
	return res;
}

// Replay a history verbosely; returns number of violations.
template<class H>
int replay(H &h, const std::string &history) {
	InstResult res;
	res.name = "replay";
	h.res = &res;
	auto ops = parse_codes(history);
	h.reset();
	std::vector<uint32_t> hh;
	for(auto op : ops) {
		hh.push_back(op);
		printf("  step %zu: %s\n", hh.size(), h.show(op).c_str());
		fflush(stdout);
		if(!guarded_apply(h, op, res, hh, true)) break;
	}
	if(res.violations.empty()) {
		try { pending().reset(); h.final_check(); raise_pending(); if(san_flag()) throw Violation{"", "asan:final", "AddressSanitizer report while destroying the owners"}; }
		catch(const Violation &v) { Violation w = v; if(w.prop.empty()) w.prop = h.prop(); res.add_violation(w, history); }
		catch(const Panic &p) { res.add_violation({h.prop(), "panic:final", p.text}, history); }
	}
	for(auto &v : res.violations) printf("REPLAY-VIOLATION property=%s sig=%s: %s\n", v.prop.c_str(), v.sig.c_str(), v.msg.c_str());
	if(res.violations.empty()) printf("REPLAY-OK %zu steps, no violation\n", ops.size());
	return (int)res.violations.size();
}

// ---------------------------------------------------------------------------------------------
// Harness main: a harness registers named instances.
struct Instance {
	std::string name;
	std::function<InstResult(const std::vector<CrashInfo> &)> run;
	std::function<int(const std::string &)> replay;
};

inline int harness_main(int argc, char **argv, const std::function<std::vector<Instance>(const std::string &tier)> &mk) {
	std::string mode = argc > 1 ? argv[1] : "";
	if(mode == "list" && argc >= 3) {
		for(auto &i : mk(argv[2])) printf("%s\n", i.name.c_str());
		return 0;
	}
	if(mode == "one" && argc >= 4) {
		// one <tier> <name> [deadline-unix-seconds]
		if(argc >= 5) {
			double dl = atof(argv[4]);
			struct timeval tv; gettimeofday(&tv, nullptr);
			double remain = dl - (tv.tv_sec + tv.tv_usec * 1e-6);
			deadline() = now_s() + (remain > 1 ? remain : 1);
		}
		for(auto &i : mk(argv[2])) if(i.name == argv[3]) {
			std::string out = run_isolated([&](const std::vector<CrashInfo> &cr) {
				InstResult r = i.run(cr);
				r.name = i.name;
				return r.json();
			});
			printf("%s\n", out.c_str());
			return 0;
		}
		fprintf(stderr, "no such instance %s\n", argv[3]);
		return 3;
	}
	if(mode == "replay" && argc >= 5) {
		for(auto &i : mk(argv[2])) if(i.name == argv[3]) return i.replay(argv[4]) ? 1 : 0;
		// instance names may exist only in the other tier
		for(auto &i : mk("thorough")) if(i.name == argv[3]) return i.replay(argv[4]) ? 1 : 0;
		fprintf(stderr, "no such instance %s\n", argv[3]);
		return 3;
	}
	fprintf(stderr, "usage: %s list <tier> | one <tier> <instance> [deadline] | replay <tier> <instance> <history>\n", argv[0]);
	return 3;
}

// Convenience: make an Instance from a harness factory.
template<class H, class... Args>
Instance bfs_instance(const std::string &name, BfsOptions opt, Args... args) {
	Instance i;
	i.name = name;
	i.run = [=](const std::vector<CrashInfo> &cr) { H h(args...); return bfs(h, name, opt, cr); };
	i.replay = [=](const std::string &hist) { H h(args...); return replay(h, hist); };
	return i;
}

// merge several BFS runs into one instance result
inline void merge(InstResult &a, const InstResult &b) {
	a.states += b.states; a.transitions += b.transitions; a.evaluations += b.evaluations; a.distinct += b.distinct;
	a.max_depth = std::max(a.max_depth, b.max_depth);
	a.complete = a.complete && b.complete;
	a.fixpoint = a.fixpoint && b.fixpoint;
	if(!b.cap.empty()) a.cap = b.cap;
	for(auto &o : b.outcomes) a.outcomes.insert(o);
	for(auto &kv : b.counters) a.counters[kv.first] += kv.second;
	for(auto &s : b.samples) if(a.samples.size() < 4) a.samples.push_back(b.name + ": " + s);
	for(auto &v : b.violations) { bool d = false; for(auto &x : a.violations) if(x.sig == v.sig && x.prop == v.prop) d = true; if(!d) a.violations.push_back(v); }
	a.wall += b.wall;
}

} // namespace verif
