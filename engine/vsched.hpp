// Engine B (C++ side): hooked atomics / mutexes that are scheduling points of the serialising
// scheduler (vsched_core.c), vector-clock happens-before tracking, and the preemption-bounded
// exhaustive schedule explorer (CHESS-style iterative context bounding).
#pragma once
#include "common.hpp"
#include "seqmc.hpp"
#include "vsched_core.h"
#include <atomic>
#include <type_traits>

#if defined(__SANITIZE_THREAD__)
#define VERIF_TSAN 1
extern "C" void __tsan_acquire(void *addr);
extern "C" void __tsan_release(void *addr);
#else
#define VERIF_TSAN 0
#endif

namespace verif {

// ---------------------------------------------------------------------------------------------
// Violations raised inside a scheduled thread: stored here, then the execution is aborted.
struct SchedViolation { bool set = false; std::string prop, sig, msg; };
inline SchedViolation &sched_violation() { static SchedViolation v; return v; }
#if VERIF_TSAN
#define VS_NOTSAN __attribute__((no_sanitize_thread))
#else
#define VS_NOTSAN
#endif
[[noreturn]] inline void vs_fail(const std::string &prop, const std::string &sig, const std::string &msg) {
	auto &v = sched_violation();
	if(!v.set) { v.set = true; v.prop = prop; v.sig = sig; v.msg = msg; }
	if(vs_self() >= 0 && vs_active) vs_abort_execution(VS_VIOLATION);
	throw Violation{prop, sig, msg};   // outside the scheduler (setup / epilogue in the main thread)
}

// ---------------------------------------------------------------------------------------------
// Vector clocks (not under TSan, which decides ordering itself).
struct VC {
	uint32_t c[VS_MAX_THREADS] = {};
	void join(const VC &o) { for(int i = 0; i < VS_MAX_THREADS; i++) if(o.c[i] > c[i]) c[i] = o.c[i]; }
	bool leq(const VC &o) const { for(int i = 0; i < VS_MAX_THREADS; i++) if(c[i] > o.c[i]) return false; return true; }
};
struct HB {
	VC thread[VS_MAX_THREADS];
	std::map<std::string, VC> marks;
	std::map<const void *, VC> rel;       // release clocks of locations touched through the __atomic hooks / mutexes
	void reset() { for(auto &t : thread) t = VC{}; marks.clear(); rel.clear(); }
};
inline HB &hb() { static HB h; return h; }
inline bool is_acq(std::memory_order o) { return o == std::memory_order_acquire || o == std::memory_order_acq_rel || o == std::memory_order_seq_cst || o == std::memory_order_consume; }
inline bool is_rel(std::memory_order o) { return o == std::memory_order_release || o == std::memory_order_acq_rel || o == std::memory_order_seq_cst; }

#if !VERIF_TSAN
inline void hb_tick() { int t = vs_self(); if(t >= 0) hb().thread[t].c[t]++; }
inline void hb_store(VC &rel, bool &has, std::memory_order o) { int t = vs_self(); if(t < 0) return; hb_tick(); if(is_rel(o)) { rel = hb().thread[t]; has = true; } else { has = false; } }
inline void hb_load(const VC &rel, bool has, std::memory_order o) { int t = vs_self(); if(t < 0) return; hb_tick(); if(has && is_acq(o)) hb().thread[t].join(rel); }
inline void hb_rmw(VC &rel, bool &has, std::memory_order o) {
	int t = vs_self(); if(t < 0) return; hb_tick();
	if(has && is_acq(o)) hb().thread[t].join(rel);
	if(is_rel(o)) { if(has) rel.join(hb().thread[t]); else { rel = hb().thread[t]; has = true; } }
	// a relaxed RMW continues the release sequence: rel stays as it is
}
// "event tag happened" / "event tag must happen-before here"
inline void hb_mark(const std::string &tag) { int t = vs_self(); if(t >= 0) { hb_tick(); hb().marks[tag] = hb().thread[t]; } }
inline bool hb_before(const std::string &tag) { int t = vs_self(); auto it = hb().marks.find(tag); if(t < 0 || it == hb().marks.end()) return true; return it->second.leq(hb().thread[t]); }
#else
inline void hb_mark(const std::string &) {}
inline bool hb_before(const std::string &) { return true; }
#endif

// ---------------------------------------------------------------------------------------------
// std::atomic replacement. Every access is a scheduling point; the real atomic operation is
// performed with the real memory order (TSan sees the true synchronisation).
template<class T>
struct atomic {
	std::atomic<T> a;
#if !VERIF_TSAN
	VC rel; bool has_rel = false;
#endif
	atomic() noexcept = default;
	constexpr atomic(T v) noexcept : a(v) {}
	atomic(const atomic &) = delete;
	atomic &operator=(const atomic &) = delete;

	T load(std::memory_order o = std::memory_order_seq_cst) const noexcept {
		vs_point(VS_LOAD, this);
#if !VERIF_TSAN
		hb_load(rel, has_rel, o);
#endif
		return a.load(o);
	}
	void store(T v, std::memory_order o = std::memory_order_seq_cst) noexcept {
		vs_point(VS_STORE, this);
#if !VERIF_TSAN
		hb_store(rel, has_rel, o);
#endif
		a.store(v, o);
	}
	T exchange(T v, std::memory_order o = std::memory_order_seq_cst) noexcept { pre_rmw(o); return a.exchange(v, o); }
	template<class U = T> auto fetch_add(U v, std::memory_order o = std::memory_order_seq_cst) noexcept { pre_rmw(o); return a.fetch_add(v, o); }
	template<class U = T> auto fetch_sub(U v, std::memory_order o = std::memory_order_seq_cst) noexcept { pre_rmw(o); return a.fetch_sub(v, o); }
	template<class U = T> auto fetch_or(U v, std::memory_order o = std::memory_order_seq_cst) noexcept { pre_rmw(o); return a.fetch_or(v, o); }
	template<class U = T> auto fetch_and(U v, std::memory_order o = std::memory_order_seq_cst) noexcept { pre_rmw(o); return a.fetch_and(v, o); }
	// A failed CAS only reads. Spurious failure of the weak form is not generated (the retry loops
	// of frigg terminate either way); both forms are executed as a strong CAS.
	bool compare_exchange_strong(T &expected, T desired, std::memory_order s, std::memory_order f) noexcept {
		bool will = a.load(std::memory_order_relaxed) == expected;   // exact: we are the only running thread
		vs_point(will ? VS_RMW : VS_LOAD, this);
		will = a.load(std::memory_order_relaxed) == expected;
#if !VERIF_TSAN
		if(will) hb_rmw(rel, has_rel, s); else hb_load(rel, has_rel, f);
#endif
		return a.compare_exchange_strong(expected, desired, s, f);
	}
	bool compare_exchange_strong(T &e, T d, std::memory_order o = std::memory_order_seq_cst) noexcept { return compare_exchange_strong(e, d, o, o == std::memory_order_acq_rel ? std::memory_order_acquire : o == std::memory_order_release ? std::memory_order_relaxed : o); }
	bool compare_exchange_weak(T &e, T d, std::memory_order s, std::memory_order f) noexcept { return compare_exchange_strong(e, d, s, f); }
	bool compare_exchange_weak(T &e, T d, std::memory_order o = std::memory_order_seq_cst) noexcept { return compare_exchange_strong(e, d, o); }
	operator T() const noexcept { return load(); }
	T operator=(T v) noexcept { store(v); return v; }
	T operator++(int) noexcept { return fetch_add(1); }
	T operator--(int) noexcept { return fetch_sub(1); }
	T operator++() noexcept { return fetch_add(1) + 1; }
	T operator--() noexcept { return fetch_sub(1) - 1; }
private:
	void pre_rmw(std::memory_order o) noexcept {
		vs_point(VS_RMW, this);
#if !VERIF_TSAN
		hb_rmw(rel, has_rel, o);
#endif
		(void)o;
	}
};

// ---------------------------------------------------------------------------------------------
// Hooks for the __atomic_* builtins (spinlock.hpp); release clocks are kept per address.
inline std::memory_order mo(int m) { return m == __ATOMIC_RELAXED ? std::memory_order_relaxed : m == __ATOMIC_ACQUIRE ? std::memory_order_acquire : m == __ATOMIC_RELEASE ? std::memory_order_release : m == __ATOMIC_ACQ_REL ? std::memory_order_acq_rel : m == __ATOMIC_CONSUME ? std::memory_order_acquire : std::memory_order_seq_cst; }
#if !VERIF_TSAN
struct AddrClock { VC rel; bool has = false; };
inline std::map<const void *, AddrClock> &addr_clocks() { static std::map<const void *, AddrClock> m; return m; }
#endif
template<class T> inline T hook_load_n(const T *p, int m) {
	vs_point(VS_LOAD, p);
#if !VERIF_TSAN
	auto &c = addr_clocks()[p]; hb_load(c.rel, c.has, mo(m));
#endif
	return __atomic_load_n(p, m);
}
template<class T, class U> inline void hook_store_n(T *p, U v, int m) {
	vs_point(VS_STORE, p);
#if !VERIF_TSAN
	auto &c = addr_clocks()[p]; hb_store(c.rel, c.has, mo(m));
#endif
	__atomic_store_n(p, (T)v, m);
}
template<class T, class U> inline T hook_fetch_add(T *p, U v, int m) {
	vs_point(VS_RMW, p);
#if !VERIF_TSAN
	auto &c = addr_clocks()[p]; hb_rmw(c.rel, c.has, mo(m));
#endif
	return __atomic_fetch_add(p, (T)v, m);
}
template<class T, class U> inline T hook_exchange_n(T *p, U v, int m) {
	vs_point(VS_RMW, p);
#if !VERIF_TSAN
	auto &c = addr_clocks()[p]; hb_rmw(c.rel, c.has, mo(m));
#endif
	return __atomic_exchange_n(p, (T)v, m);
}
template<class T, class U> inline T hook_fetch_sub(T *p, U v, int m) {
	vs_point(VS_RMW, p);
#if !VERIF_TSAN
	auto &c = addr_clocks()[p]; hb_rmw(c.rel, c.has, mo(m));
#endif
	return __atomic_fetch_sub(p, (T)v, m);
}
template<class T, class U> inline T hook_fetch_or(T *p, U v, int m) {
	vs_point(VS_RMW, p);
#if !VERIF_TSAN
	auto &c = addr_clocks()[p]; hb_rmw(c.rel, c.has, mo(m));
#endif
	return __atomic_fetch_or(p, (T)v, m);
}
template<class T, class U> inline T hook_fetch_and(T *p, U v, int m) {
	vs_point(VS_RMW, p);
#if !VERIF_TSAN
	auto &c = addr_clocks()[p]; hb_rmw(c.rel, c.has, mo(m));
#endif
	return __atomic_fetch_and(p, (T)v, m);
}
// compare-exchange: a failing CAS only reads (and stores the observed value into *expected)
template<class T, class U> inline bool hook_compare_exchange_n(T *p, T *expected, U desired, bool weak, int ms, int mf) {
	(void)weak;
	bool will = __atomic_load_n(p, __ATOMIC_RELAXED) == *expected;
	vs_point(will ? VS_RMW : VS_LOAD, p);
	will = __atomic_load_n(p, __ATOMIC_RELAXED) == *expected;
#if !VERIF_TSAN
	auto &c = addr_clocks()[p]; if(will) hb_rmw(c.rel, c.has, mo(ms)); else hb_load(c.rel, c.has, mo(mf));
#endif
	return __atomic_compare_exchange_n(p, expected, (T)desired, false, ms, mf);
}
template<class T> inline bool hook_test_and_set(T *p, int m) {
	vs_point(VS_RMW, p);
#if !VERIF_TSAN
	auto &c = addr_clocks()[p]; hb_rmw(c.rel, c.has, mo(m));
#endif
	return __atomic_test_and_set(p, m);
}
template<class T> inline void hook_clear(T *p, int m) {
	vs_point(VS_STORE, p);
#if !VERIF_TSAN
	auto &c = addr_clocks()[p]; hb_store(c.rel, c.has, mo(m));
#endif
	__atomic_clear(p, m);
}
inline void hook_pause() { vs_point(VS_PAUSE, nullptr); }

// ---------------------------------------------------------------------------------------------
// Mutex whose lock() blocks in the scheduler (a blocked lock is not a spin).
struct VMutex {
	bool held = false; int owner = -1;
#if !VERIF_TSAN
	VC rel; bool has_rel = false;
#endif
	void lock() {
		vs_point(VS_LOCK, this);
#if VERIF_TSAN
		__tsan_acquire(this);
#endif
		if(held) vs_fail("C05", "mutex:granted-while-held", "scheduler granted a held mutex");
		held = true; owner = vs_self();
#if !VERIF_TSAN
		{ int t = vs_self(); if(t >= 0) { hb_tick(); if(has_rel) hb().thread[t].join(rel); } }
#endif
	}
	void unlock() {
		vs_point(VS_UNLOCK, this);
		if(!held) vs_fail("C12", "mutex:unlock-of-free-mutex", "unlock() of a mutex that is not held");
		held = false; owner = -1;
#if VERIF_TSAN
		__tsan_release(this);
#else
		{ int t = vs_self(); if(t >= 0) { hb_tick(); rel = hb().thread[t]; has_rel = true; } }
#endif
	}
};

// ---------------------------------------------------------------------------------------------
// Explorer.  Harness concept:
//   const char *prop();  void setup();  int nthreads();  void body(int tid);
//   void finish();        // main thread, after all threads ended normally: end-state oracle (throws Violation)
//   std::string outcome(); // observation signature of this execution (distinct outcomes are counted)
struct SchedOptions { int bound = 2; int horizon = 3000; int ro_limit = 64; uint64_t max_execs = 0; };

inline const char *status_name(int s) { static const char *n[] = {"running", "ok", "deadlock", "livelock", "horizon", "diverged", "violation", "panic"}; return n[s]; }
inline const char *kind_name(int k) { static const char *n[] = {"start", "load", "store", "rmw", "lock", "unlock", "pause", "yield", "event", "waitflag"}; return n[k]; }

inline std::string sched_string(const std::vector<unsigned char> &ch) { std::string s; for(size_t i = 0; i < ch.size(); i++) { if(i) s += ","; s += std::to_string((int)ch[i]); } return s; }
inline std::string trace_string(size_t maxpts = 400) {
	std::string s;
	for(int i = 0; i < vs_tr.npoints && (size_t)i < maxpts; i++) { s += " T" + std::to_string((int)vs_tr.pts[i].tid) + ":" + kind_name(vs_tr.pts[i].kind); }
	return s;
}

template<class H>
struct SchedRun {
	H &h;
	static void entry(void *p) { auto *a = (std::pair<H *, int> *)p; a->first->body(a->second); }
	// run one execution following `prefix`; returns status; violation (if any) in sched_violation()
	int run(const std::vector<unsigned char> &prefix, const SchedOptions &o) {
		sched_violation() = SchedViolation{};
		pending().reset(); san_flag() = 0;
#if !VERIF_TSAN
		hb().reset(); addr_clocks().clear();
#endif
		h.setup();
		vs_begin(prefix.data(), (int)prefix.size(), o.horizon, o.ro_limit);
		int n = h.nthreads();
		std::vector<std::pair<H *, int>> args(n);
		for(int t = 0; t < n; t++) { args[t] = {&h, t}; vs_spawn(entry, &args[t]); }
		vs_run();
		return vs_tr.status;
	}
};

template<class H>
InstResult explore(H &h, const std::string &name, const SchedOptions &opt) {
	InstResult res; res.name = name; res.fixpoint = true;
	double t0 = now_s();
	SchedRun<H> R{h};
	std::vector<std::vector<unsigned char>> stack;
	stack.push_back({});
	uint64_t execs = 0, points = 0;
	auto record_violation = [&](const Violation &v, const std::vector<unsigned char> &full) {
		// replay the same schedule twice: the failure must reproduce identically
		std::string first_sig = v.sig; bool same = true;
		for(int k = 0; k < 2; k++) {
			int st = R.run(full, opt);
			std::string sig2;
			if(sched_violation().set) sig2 = sched_violation().sig;
			else if(st != VS_OK) sig2 = std::string("sched:") + status_name(st);
			else { try { h.finish(); raise_pending(); } catch(const Violation &w) { sig2 = w.sig; } }
			if(san_flag()) { san_flag() = 0; if(sig2.empty()) sig2 = "asan"; }
			if(sig2 != first_sig) same = false;
		}
		Violation w = v; if(w.prop.empty()) w.prop = h.prop();
		if(first_sig == "asan") same = true;   // ASan reports each faulting PC only once per process, so the replay is silent
		if(!same) { w.sig = "nondeterministic:" + w.sig; w.msg = "HARNESS-NONDETERMINISM (failure did not reproduce identically on replay): " + w.msg; }
		res.add_violation(w, sched_string(full) + " |" + trace_string());
	};
	while(!stack.empty()) {
		std::vector<unsigned char> prefix = std::move(stack.back());
		stack.pop_back();
		if((execs & 63) == 0) { slot_beat(); if(past_deadline()) { res.complete = false; res.fixpoint = false; res.cap = "deadline"; break; } }
		if(opt.max_execs && execs >= opt.max_execs) { res.complete = false; res.fixpoint = false; res.cap = "max_execs"; break; }
		slot_set(sched_string(prefix));
		int st = R.run(prefix, opt);
		execs++; points += vs_tr.npoints;
		// the full choice sequence of this execution
		std::vector<unsigned char> full(vs_tr.npoints);
		for(int i = 0; i < vs_tr.npoints; i++) full[i] = vs_tr.pts[i].chosen;
		std::vector<struct vs_point_rec> pts(vs_tr.pts, vs_tr.pts + vs_tr.npoints);
		bool bad = false;
		if(sched_violation().set) { auto sv = sched_violation(); record_violation(Violation{sv.prop, sv.sig, sv.msg}, full); bad = true; }
		else if(st == VS_DIVERGED) { res.add_violation({h.prop(), "sched:diverged", "replaying a schedule prefix diverged: the harness is not deterministic"}, sched_string(prefix)); bad = true; }
		else if(st != VS_OK) { record_violation(Violation{h.prop(), std::string("sched:") + status_name(st), std::string("execution ended in ") + status_name(st) + " (no thread can make progress / horizon of visible operations exceeded)"}, full); bad = true; }
		else {
			try {
				h.finish(); raise_pending();
				if(san_flag()) { san_flag() = 0; throw Violation{"", "asan", "AddressSanitizer report during the execution"}; }
				res.outcomes.insert(h.outcome());
			} catch(const Violation &v) { record_violation(v, full); bad = true; }
			catch(const Panic &p) { record_violation(Violation{"", "panic:epilogue", p.text}, full); bad = true; }
		}
		if(res.samples.size() < 3) res.samples.push_back(sched_string(full).substr(0, 120) + " |" + trace_string(24));
		if(bad && res.violations.size() >= 8) { res.complete = false; res.cap = "too many violations"; break; }
		// children: alternatives at every point after the prefix, within the preemption bound
		int pre = 0;
		for(size_t i = 0; i < prefix.size() && i < pts.size(); i++) if(pts[i].cur_enabled && pts[i].chosen != 0) pre++;
		std::vector<std::vector<unsigned char>> kids;
		for(size_t i = prefix.size(); i < pts.size(); i++) {
			// preemptions before i (default choices never preempt)
			int cost = pre + (pts[i].cur_enabled ? 1 : 0);
			if(cost > opt.bound) continue;
			for(int alt = 1; alt < pts[i].nenabled; alt++) {
				std::vector<unsigned char> k(full.begin(), full.begin() + i);
				k.push_back((unsigned char)alt);
				kids.push_back(std::move(k));
			}
		}
		for(size_t k = kids.size(); k-- > 0;) stack.push_back(std::move(kids[k]));
	}
	res.states = execs; res.transitions = points; res.evaluations = 0;
	res.counters["schedules"] = execs; res.counters["visible_operations"] = points;
	res.counters["preemption_bound"] = opt.bound;
	res.max_depth = 0;
	res.wall = now_s() - t0;
	return res;
}

template<class H>
int sched_replay(H &h, const std::string &history, const SchedOptions &opt) {
	std::vector<unsigned char> prefix;
	for(auto c : parse_codes(history)) prefix.push_back((unsigned char)c);
	SchedRun<H> R{h};
	int st = R.run(prefix, opt);
	for(int i = 0; i < vs_tr.npoints; i++) printf("  %3d: T%d %-6s %p  (choice %d of %d%s)\n", i, vs_tr.pts[i].tid, kind_name(vs_tr.pts[i].kind), vs_tr.pts[i].addr, vs_tr.pts[i].chosen, vs_tr.pts[i].nenabled, vs_tr.pts[i].cur_enabled && vs_tr.pts[i].chosen ? ", preemption" : "");
	int bad = 0;
	if(sched_violation().set) { printf("REPLAY-VIOLATION property=%s sig=%s: %s\n", sched_violation().prop.c_str(), sched_violation().sig.c_str(), sched_violation().msg.c_str()); bad = 1; }
	else if(st != VS_OK) { printf("REPLAY-VIOLATION property=%s sig=sched:%s\n", h.prop(), status_name(st)); bad = 1; }
	else { try { h.finish(); raise_pending(); printf("REPLAY-OK outcome=%s\n", h.outcome().c_str()); } catch(const Violation &v) { printf("REPLAY-VIOLATION property=%s sig=%s: %s\n", v.prop.c_str(), v.sig.c_str(), v.msg.c_str()); bad = 1; } }
	return bad;
}

template<class H, class... Args>
Instance sched_instance(const std::string &name, SchedOptions opt, Args... args) {
	Instance i; i.name = name;
	i.run = [=](const std::vector<CrashInfo> &cr) {
		if(!cr.empty()) {   // a schedule killed the process: report it, do not retry
			InstResult r; r.name = name; r.complete = false; r.cap = "crash";
			bool tsan = cr[0].how == "exit 66";
			r.add_violation({"", tsan ? "tsan:data-race" : "crash:" + cr[0].how, tsan ? "ThreadSanitizer reported a data race while running this schedule (see the log)" : "the process died (" + cr[0].how + ") while running a schedule"}, cr[0].step);
			return r;
		}
		H h(args...); return explore(h, name, opt);
	};
	i.replay = [=](const std::string &hist) { H h(args...); return sched_replay(h, hist, opt); };
	return i;
}

} // namespace verif

// The panic hook for scheduled code: inside a thread the execution is aborted (the stack is
// abandoned by longjmp), outside it throws as in engine A.
namespace verif {
struct SchedPanicInstaller {
	SchedPanicInstaller() {
		panic_hook() = [](const char *text) {
			if(vs_self() >= 0 && vs_active) {
				std::string t = text; size_t k = t.find("include/frg/"); if(k != std::string::npos) t = t.substr(k + 8);
				auto &v = sched_violation();
				if(!v.set) { v.set = true; v.prop = ""; v.sig = "panic:" + t.substr(0, t.find(": Assertion")); v.msg = "library assertion inside a scheduled thread: " + t; }
				vs_abort_execution(VS_PANIC);
			}
		};
	}
};
inline SchedPanicInstaller sched_panic_installer;
}
