// Common infrastructure for all verification harnesses:
//  * Violation / Panic exceptions, frg_panic / frg_log hooks
//  * JSON string building
//  * process isolation with a shared progress slot (crash / hang attribution)
//  * report accumulation
#pragma once
#include <cstdint>
#include <cstdio>
#include <cstdlib>
#include <cstring>
#include <string>
#include <vector>
#include <set>
#include <map>
#include <functional>
#include <optional>
#include <stdexcept>
#include <chrono>
#include <unistd.h>
#include <signal.h>
#include <sys/mman.h>
#include <sys/prctl.h>
#include <sys/wait.h>
#include <sys/time.h>
#include <sys/resource.h>

namespace verif {

// A property violation found by an oracle. `prop` = property id it is attributed to,
// `sig` = short stable signature (used for de-duplication and known-finding matching).
struct Violation {
	std::string prop, sig, msg;
};

// frg_panic was called (FRG_ASSERT failed inside the library).
struct Panic {
	std::string text;
};

inline double now_s() {
	using namespace std::chrono;
	return duration<double>(steady_clock::now().time_since_epoch()).count();
}

inline std::string jesc(const std::string &s) {
	std::string o;
	for(unsigned char c : s) {
		switch(c) {
		case '"': o += "\\\""; break;
		case '\\': o += "\\\\"; break;
		case '\n': o += "\\n"; break;
		case '\t': o += "\\t"; break;
		default:
			if(c < 0x20 || c >= 0x7f) { char b[8]; snprintf(b, sizeof b, "\\u%04x", c); o += b; }
			else o += (char)c;
		}
	}
	return o;
}
inline std::string jstr(const std::string &s) { return "\"" + jesc(s) + "\""; }

// 128-bit state hash (two independent 64-bit mixes); collision probability for 10^8 states ~ 10^-22.
struct Hash128 {
	uint64_t a, b;
	bool operator<(const Hash128 &o) const { return a != o.a ? a < o.a : b < o.b; }
	bool operator==(const Hash128 &o) const { return a == o.a && b == o.b; }
};
inline uint64_t mix64(uint64_t x) {
	x ^= x >> 33; x *= 0xff51afd7ed558ccdULL; x ^= x >> 33; x *= 0xc4ceb9fe1a85ec53ULL; x ^= x >> 33;
	return x;
}
inline Hash128 hash128(const void *p, size_t n) {
	const unsigned char *c = (const unsigned char *)p;
	uint64_t a = 0x9e3779b97f4a7c15ULL ^ n, b = 0xc2b2ae3d27d4eb4fULL + n;
	size_t i = 0;
	for(; i + 8 <= n; i += 8) {
		uint64_t w; memcpy(&w, c + i, 8);
		a = mix64(a ^ w) + 0x165667b19e3779f9ULL;
		b = (b ^ (w * 0x9fb21c651e98df25ULL)); b = (b << 29 | b >> 35) * 0xd6e8feb86659fd93ULL;
	}
	uint64_t w = 0; memcpy(&w, c + i, n - i);
	a = mix64(a ^ w ^ 0xabcdef); b = mix64(b ^ (w + 0x1234567));
	return {mix64(a ^ (b >> 1)), mix64(b ^ (a << 1) ^ 0x55)};
}
struct Hash128Hasher { size_t operator()(const Hash128 &h) const { return (size_t)h.a; } };

// ---------------------------------------------------------------------------------------------
// Shared progress slot: the child writes what it is about to do; the parent reads it if the child
// dies or hangs.
struct Slot {
	volatile uint64_t heartbeat;
	volatile uint32_t len;
	char text[1 << 16];
};
inline Slot *&slot_ptr() { static Slot *s = nullptr; return s; }
inline std::string &slot_prefix() { static std::string p; return p; }
inline void slot_set(const std::string &s0) {
	Slot *sl = slot_ptr();
	if(!sl) return;
	std::string s = slot_prefix() + s0;
	uint32_t n = s.size() < sizeof(sl->text) - 1 ? s.size() : sizeof(sl->text) - 1;
	memcpy(sl->text, s.data(), n);
	sl->text[n] = 0;
	sl->len = n;
	sl->heartbeat = sl->heartbeat + 1;
}
inline void slot_beat() { if(slot_ptr()) slot_ptr()->heartbeat = slot_ptr()->heartbeat + 1; }

// Sanitizer error flag (ASan runs with halt_on_error=0 and calls this hook on every report).
inline volatile int &san_flag() { static volatile int f = 0; return f; }

// ---------------------------------------------------------------------------------------------
// Result of one exploration instance.
struct VioRec { std::string prop, sig, msg, instance, history; };

struct InstResult {
	std::string name;
	uint64_t states = 0, transitions = 0, evaluations = 0, distinct = 0;
	int max_depth = 0;
	bool complete = true;      // false: deadline hit
	bool fixpoint = false;     // BFS queue drained without a depth cut
	std::string cap;           // what cut the run, if anything
	std::set<std::string> outcomes;   // distinct oracle outcomes / observation signatures
	std::vector<std::string> samples;
	std::vector<VioRec> violations;
	std::map<std::string, uint64_t> counters;
	double wall = 0;

	void add_violation(const Violation &v, const std::string &hist) {
		for(auto &x : violations) if(x.sig == v.sig && x.prop == v.prop) return;
		if(violations.size() < 200) violations.push_back({v.prop, v.sig, v.msg, name, hist});
	}
	std::string json() const {
		std::string o = "{\"name\":" + jstr(name);
		auto num = [&](const char *k, uint64_t v) { o += ",\"" + std::string(k) + "\":" + std::to_string(v); };
		num("states", states); num("transitions", transitions); num("evaluations", evaluations);
		num("distinct", distinct); num("max_depth", max_depth);
		o += std::string(",\"complete\":") + (complete ? "true" : "false");
		o += std::string(",\"fixpoint\":") + (fixpoint ? "true" : "false");
		o += ",\"cap\":" + jstr(cap);
		o += ",\"n_outcomes\":" + std::to_string(outcomes.size());
		o += ",\"outcomes\":[";
		{ int k = 0; for(auto &s : outcomes) { if(k >= 12) break; if(k++) o += ","; o += jstr(s); } }
		o += "],\"samples\":[";
		for(size_t i = 0; i < samples.size() && i < 6; i++) { if(i) o += ","; o += jstr(samples[i]); }
		o += "],\"counters\":{";
		{ int k = 0; for(auto &kv : counters) { if(k++) o += ","; o += jstr(kv.first) + ":" + std::to_string(kv.second); } }
		o += "},\"violations\":[";
		for(size_t i = 0; i < violations.size(); i++) {
			auto &v = violations[i];
			if(i) o += ",";
			o += "{\"prop\":" + jstr(v.prop) + ",\"sig\":" + jstr(v.sig) + ",\"msg\":" + jstr(v.msg)
				+ ",\"instance\":" + jstr(v.instance) + ",\"history\":" + jstr(v.history) + "}";
		}
		char wb[32]; snprintf(wb, sizeof wb, "%.3f", wall);
		o += std::string("],\"wall_s\":") + wb + "}";
		return o;
	}
};

// Violations detected where throwing is impossible (destructors, noexcept paths) are parked here
// and raised by the engine right after the operation returns.
inline std::optional<Violation> &pending() { static std::optional<Violation> p; return p; }
inline void note(const std::string &prop, const std::string &sig, const std::string &msg) {
	if(!pending()) pending() = Violation{prop, sig, msg};
}
// The property this process is checking (VERIF_PROP); empty = all.
inline const std::string &wanted_prop() { static std::string w = getenv("VERIF_PROP") ? getenv("VERIF_PROP") : ""; return w; }
// Violations of OTHER properties noted during an operation must not hide the oracles of the property
// being checked (they are reported by that other property's own check): they are collected here.
inline std::vector<Violation> &side_violations() { static std::vector<Violation> v; return v; }
inline void raise_pending() {
	if(pending()) {
		Violation v = *pending(); pending().reset();
		if(!wanted_prop().empty() && !v.prop.empty() && v.prop != wanted_prop()) { if(side_violations().size() < 64) side_violations().push_back(v); return; }
		throw v;
	}
}


// Global deadline for this process (seconds since steady epoch); 0 = none.
inline double &deadline() { static double d = 0; return d; }
inline bool past_deadline() { return deadline() > 0 && now_s() > deadline(); }

// ---------------------------------------------------------------------------------------------
// Run fn(skip) in a forked child. The child returns an InstResult JSON through a pipe. If the
// child crashes or hangs, the text in the progress slot identifies the step; it is added to
// `skip` (so the re-run reports it as a violation instead of executing it) and the child is
// re-run, up to max_retries times. Returns the JSON of the last (successful) run; crash
// violations are appended by the child itself from the skip list.
struct CrashInfo { std::string step; std::string how; };
#ifdef VERIF_COVERAGE
extern "C" void __gcov_dump(void);
#endif

inline std::string run_isolated(const std::function<std::string(const std::vector<CrashInfo> &)> &fn,
		double hang_s = 60.0, int max_retries = 12) {
	std::vector<CrashInfo> crashes;
	int hangs = 0;
	for(int attempt = 0;; attempt++) {
		Slot *sl = (Slot *)mmap(nullptr, sizeof(Slot), PROT_READ | PROT_WRITE, MAP_SHARED | MAP_ANONYMOUS, -1, 0);
		memset((void *)sl, 0, sizeof(uint64_t) + sizeof(uint32_t) + 1);
		int pfd[2];
		if(pipe(pfd)) { perror("pipe"); exit(3); }
		fflush(stdout); fflush(stderr);
		pid_t pid = fork();
		if(pid == 0) {
			prctl(PR_SET_PDEATHSIG, SIGKILL);   // a pass that hangs must not outlive the instance process
			close(pfd[0]);
			slot_ptr() = sl;
			std::string out = fn(crashes);
			size_t off = 0;
			while(off < out.size()) {
				ssize_t w = write(pfd[1], out.data() + off, out.size() - off);
				if(w <= 0) break;
				off += w;
			}
			close(pfd[1]);
			fflush(stdout); fflush(stderr);
#ifdef VERIF_COVERAGE
			__gcov_dump();
#endif
			_exit(0);
		}
		close(pfd[1]);
		// read pipe fully while watching the heartbeat
		std::string out;
		uint64_t last_hb = 0; double last_change = now_s();
		bool killed = false;
		int status = 0;
		// make the pipe non-blocking via poll loop
		for(;;) {
			fd_set rf; FD_ZERO(&rf); FD_SET(pfd[0], &rf);
			struct timeval tv = {0, 200000};
			int r = select(pfd[0] + 1, &rf, nullptr, nullptr, &tv);
			if(r > 0) {
				char buf[65536];
				ssize_t n = read(pfd[0], buf, sizeof buf);
				if(n > 0) { out.append(buf, n); last_change = now_s(); continue; }
				break; // EOF
			}
			uint64_t hb = sl->heartbeat;
			if(hb != last_hb) { last_hb = hb; last_change = now_s(); }
			else if(now_s() - last_change > hang_s) { kill(pid, SIGKILL); killed = true; break; }
		}
		close(pfd[0]);
		waitpid(pid, &status, 0);
		bool ok = !killed && WIFEXITED(status) && WEXITSTATUS(status) == 0 && !out.empty();
		if(ok) { munmap((void *)sl, sizeof(Slot)); return out; }
		CrashInfo ci;
		ci.step = std::string(sl->text, sl->len);
		if(killed) {
			ci.how = "hang(no progress for " + std::to_string((int)hang_s) + "s)";
			// every hang costs the full waiting time: once one step has been seen hanging for the full limit, later ones get a
			// quarter of it, and after three the instance stops and reports them (instead of running into the instance timeout
			// with nothing reported)
			hangs++; if(hangs == 1) hang_s = hang_s / 4;
		}
		else if(WIFSIGNALED(status)) ci.how = "signal " + std::to_string(WTERMSIG(status));
		else ci.how = "exit " + std::to_string(WIFEXITED(status) ? WEXITSTATUS(status) : -1);
		munmap((void *)sl, sizeof(Slot));
		fprintf(stderr, "[isolate] child failed (%s) at step: %s\n", ci.how.c_str(), ci.step.c_str());
		bool dup = false;
		for(auto &c : crashes) if(c.step == ci.step) dup = true;
		crashes.push_back(ci);
		if(dup || attempt >= max_retries || hangs >= 3) {
			// cannot make progress: synthesise a result containing only the crash
			InstResult r; r.name = "crashed"; r.complete = false; r.cap = "crash loop";
			for(auto &c : crashes)
				r.add_violation({"", "crash:" + c.how, "process died: " + c.how}, c.step);
			return r.json();
		}
	}
}

} // namespace verif

// ---------------------------------------------------------------------------------------------
// Library hooks. frg_panic is declared weak by frigg; we define it strongly.
namespace verif { inline std::function<void(const char *)> &panic_hook() { static std::function<void(const char *)> h; return h; } }
extern "C" void frg_panic(const char *cstring) {
	if(verif::panic_hook()) verif::panic_hook()(cstring);   // engine B: abort the execution when inside a scheduled thread
	throw verif::Panic{cstring};
}
extern "C" void frg_log(const char *cstring) { (void)cstring; }

#if defined(__SANITIZE_ADDRESS__)
#define VERIF_ASAN 1
#elif defined(__has_feature)
#if __has_feature(address_sanitizer)
#define VERIF_ASAN 1
#endif
#endif
#ifdef VERIF_ASAN
#include <sanitizer/asan_interface.h>
namespace verif { inline volatile uintptr_t &san_addr() { static volatile uintptr_t a = 0; return a; } }
namespace verif { inline void (*&san_hook())(uintptr_t) { static void (*h)(uintptr_t) = nullptr; return h; } }   // called at the moment of the first report of an operation
extern "C" void __asan_on_error() {
	bool first = !verif::san_flag();
	verif::san_flag() = 1; verif::san_addr() = (uintptr_t)__asan_get_report_address();
	if(first && verif::san_hook()) verif::san_hook()(verif::san_addr());
}
extern "C" const char *__asan_default_options() {
	return "halt_on_error=0:detect_leaks=0:allocator_may_return_null=1:detect_stack_use_after_return=0:print_legend=0:print_full_thread_history=0:symbolize=0:fast_unwind_on_fatal=1:malloc_context_size=0:print_summary=0";
}
#include <sanitizer/asan_interface.h>
#else
#define VERIF_ASAN 0
#endif
