#!/bin/sh
# Run once after a fresh restore, offline. Everything that contains frigg code is compiled by
# ./check at run time from /repo's current tree; here we only create directories.
set -e
cd "$(dirname "$0")"
mkdir -p build out evidence
echo setup ok
