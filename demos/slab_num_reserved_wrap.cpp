// Demonstration (not a registered check): slab_frame::num_reserved is incremented on every
// allocation and never decremented, so after 2^32 allocations from one slab it wraps to 0 and the
// next free() trips FRG_ASSERT(slb->num_reserved).  Runs 2^32 alloc/free pairs natively (~1 min).
#include <cstdio>
#include <cstdlib>
#include <cstdint>
#include <sys/mman.h>
#include <new>
#include <frg/slab.hpp>
extern "C" void frg_panic(const char *s) { printf("PANIC after wrap: %s\n", s); exit(1); }
struct Mutex { void lock() {} void unlock() {} };
struct Policy {
	static constexpr size_t slabsize = 4096, sb_size = 4096, pagesize = 256; static constexpr int num_buckets = 8;
	uintptr_t map(size_t len, size_t align) { void *p = aligned_alloc(align, (len + align - 1) / align * align); return (uintptr_t)p; }
	void unmap(uintptr_t p, size_t) { free((void *)p); }
};
int main() {
	Policy pol; frg::slab_pool<Policy, Mutex> pool(pol);
	void *keep = pool.allocate(8);
	for(uint64_t i = 0; i < (uint64_t(1) << 32) - 1; i++) { void *p = pool.allocate(8); pool.free(p); }
	printf("2^32 allocations done, freeing a long-lived block now\n");
	pool.free(keep);
	printf("OK: no assertion\n");
	return 0;
}
