// C01/C02/C03: frg::slab_pool with request sizes around and above 2^31 and 2^32 bytes.
// The explicit-state slab harness (c01_slab.cpp) works in a 16 MiB arena, so every length it sees fits into 32
// bits with room to spare; a size computation that silently narrows to 32 bits is invisible there.  Here the policy
// hands out address space only (mmap MAP_NORESERVE; the harness touches the first and last bytes of a block and a
// few bytes around every 2^32 boundary inside it), poisoning is tracked as an interval set instead of per byte, and
// every script below is run for every size of the alphabet x {two-argument map, one-argument map} x {with, without
// poison hooks}.  The oracles are those of the three slab properties: block inside what map() was asked for,
// reported size, content preservation over realloc, unmap(base, length) pairing, page counter, poisoning.
#include "../engine/enumerate.hpp"
#include <frg/slab.hpp>
#include <sys/mman.h>
#include <map>

using namespace verif;

// a crash or assertion inside the pool is reported under the property this process was started for
static const char *WANT() { static std::string w = wanted_prop().empty() ? "C03" : wanted_prop(); return w.c_str(); }

struct HRegion { uintptr_t base; size_t len; uintptr_t raw; size_t rawlen; };
struct HState {
	std::map<uintptr_t, HRegion> regions;
	std::map<uintptr_t, uintptr_t> poisoned;        // disjoint [a, b)
	bool poisoning = false;
	long maps = 0, unmaps = 0;
	void reset() { for(auto &kv : regions) munmap((void *)kv.second.raw, kv.second.rawlen); regions.clear(); poisoned.clear(); maps = unmaps = 0; }
	const HRegion *region_of(uintptr_t a, size_t n) const {
		auto it = regions.upper_bound(a); if(it == regions.begin()) return nullptr; --it;
		if(a >= it->second.base && a + n <= it->second.base + it->second.len && a + n >= a) return &it->second;
		return nullptr;
	}
	void add_poison(uintptr_t a, uintptr_t b) {
		if(a >= b) return;
		auto it = poisoned.lower_bound(a);
		if(it != poisoned.begin()) { auto p = std::prev(it); if(p->second >= a) { a = p->first; b = std::max(b, p->second); it = poisoned.erase(p); } }
		while(it != poisoned.end() && it->first <= b) { b = std::max(b, it->second); it = poisoned.erase(it); }
		poisoned[a] = b;
	}
	void del_poison(uintptr_t a, uintptr_t b) {
		if(a >= b) return;
		auto it = poisoned.lower_bound(a);
		if(it != poisoned.begin()) { auto p = std::prev(it); if(p->second > a) { uintptr_t pe = p->second; p->second = a; if(pe > b) poisoned[b] = pe; } }
		while(it != poisoned.end() && it->first < b) { uintptr_t e = it->second; it = poisoned.erase(it); if(e > b) { poisoned[b] = e; break; } }
	}
	bool any_poison(uintptr_t a, uintptr_t b) const {
		auto it = poisoned.lower_bound(a);
		if(it != poisoned.end() && it->first < b) return true;
		if(it != poisoned.begin()) { auto p = std::prev(it); if(p->second > a) return true; }
		return false;
	}
};
static HState HS;

static uintptr_t huge_map(size_t len, size_t align) {
	HS.maps++;
	size_t rawlen = len + align + 4096;
	if(rawlen < len) return 0;
	void *raw = mmap(nullptr, rawlen, PROT_READ | PROT_WRITE, MAP_PRIVATE | MAP_ANONYMOUS | MAP_NORESERVE, -1, 0);
	if(raw == MAP_FAILED) { fprintf(stderr, "c03_slab_huge: cannot reserve %zu bytes of address space\n", rawlen); abort(); }
	uintptr_t base = ((uintptr_t)raw + align - 1) / align * align;
	HS.regions[base] = HRegion{base, len, (uintptr_t)raw, rawlen};
	if(HS.poisoning) HS.add_poison(base, base + len);
	return base;
}
static void huge_unmap(uintptr_t base, size_t len) {
	HS.unmaps++;
	auto it = HS.regions.find(base);
	if(it == HS.regions.end()) { note("C03", "huge:unmap-unknown-base", "unmap() of a base that is not a currently mapped region"); return; }
	if(it->second.len != len) note("C03", "huge:unmap-wrong-length", "unmap(base, " + std::to_string(len) + ") but map was asked for " + std::to_string(it->second.len));
	HS.del_poison(base, base + it->second.len);
	munmap((void *)it->second.raw, it->second.rawlen);
	HS.regions.erase(it);
}
static void huge_hook(void *p, size_t n, bool poison, const char *what) {
	uintptr_t a = (uintptr_t)p;
	if(!HS.region_of(a, n)) { note("C03", std::string("huge:") + what + "-outside-mapped", std::string(what) + "(p, " + std::to_string(n) + ") reaches outside what map() was asked for"); return; }
	if(poison) HS.add_poison(a, a + n); else HS.del_poison(a, a + n);
}

template<bool Aligned, bool Poison>
struct HugePolicy {
	uintptr_t map(size_t len, size_t align) requires Aligned { return huge_map(len, align); }
	uintptr_t map(size_t len) requires (!Aligned) { return huge_map(len, 4096); }
	void unmap(uintptr_t base, size_t len) { huge_unmap(base, len); }
	void poison(void *p, size_t n) requires Poison { huge_hook(p, n, true, "poison"); }
	void unpoison(void *p, size_t n) requires Poison { huge_hook(p, n, false, "unpoison"); }
	void unpoison_expand(void *p, size_t n) requires Poison { huge_hook(p, n, false, "unpoison_expand"); }
};
struct NoMutex { void lock() {} void unlock() {} };

template<bool Aligned, bool Poison>
struct HugeRun {
	using Pol = HugePolicy<Aligned, Poison>;
	using Pool = frg::slab_pool<Pol, NoMutex>;
	Pol pol;
	alignas(64) unsigned char store[sizeof(Pool)];
	Pool &pool() { return *reinterpret_cast<Pool *>(store); }
	HugeRun() { HS.reset(); HS.poisoning = Poison; memset(store, 0xA5, sizeof store); new(store) Pool(pol); }
	~HugeRun() { HS.reset(); }

	// the bytes the harness may touch without committing gigabytes: both ends and the neighbourhood of every 2^32 multiple
	static std::vector<size_t> probes(size_t n) {
		std::vector<size_t> o;
		for(size_t k : {size_t(0), size_t(1), size_t(4095), size_t(4096)}) if(k < n) o.push_back(k);
		for(size_t m = size_t(1) << 31; m < n + 4096; m += size_t(1) << 31) for(long d : {-4097L, -4096L, -1L, 0L, 1L, 4095L, 4096L}) { size_t k = m + d; if(k < n) o.push_back(k); }
		for(size_t d : {size_t(1), size_t(2), size_t(4096), size_t(4097)}) if(d <= n) o.push_back(n - d);
		return o;
	}
	static unsigned char pat(size_t k, unsigned salt) { return (unsigned char)(k * 131 + (k >> 12) * 7 + (k >> 32) * 29 + salt); }
	std::string hex(uintptr_t v) { char b[32]; snprintf(b, sizeof b, "0x%lx", (unsigned long)v); return b; }

	// A failed check of the property this process was started for ends the case; a failed check of one of the other two
	// slab properties is recorded on the side (that property's own run reports it) and the case goes on where it safely can.
	bool ok(bool cond, const char *prop, const char *sig, const std::string &msg) {
		if(cond) return true;
		Violation v{prop, sig, msg};
		if(wanted_prop().empty() || wanted_prop() == prop) throw v;
		if(side_violations().size() < 64) side_violations().push_back(v);
		return false;
	}
	// everything the three properties say about one live block of n requested bytes; false: the harness must not touch it
	bool check_block(void *p, size_t n, const char *how) {
		std::string d = std::string(how) + "(" + std::to_string(n) + ")";
		if(!ok(p != nullptr, "C01", "huge:null", d + " returned null although map() succeeded")) return false;
		uintptr_t a = (uintptr_t)p;
		size_t need = n ? n : 1;
		bool inside = HS.region_of(a, need) != nullptr;
		if(Poison) ok(inside && !HS.any_poison(a, a + need), "C03", "huge:live-bytes-not-unpoisoned", "requested bytes of the live block from " + d + " are not all unpoisoned memory of a mapped region");
		ok(inside, "C01", "huge:outside-mapped-memory", d + " = " + hex(a) + ": the requested bytes do not lie inside a region the pool obtained from map() (a length narrowed to 32 bits?)");
		if(!inside) return false;
		ok(a % 4096 == 0 || n < 4096, "C01", "huge:misaligned", d + " is not page aligned");
		size_t gs = pool().get_size(p);
		ok(gs >= n, "C01", "huge:get_size-too-small", "get_size reports " + std::to_string(gs) + " for a block of " + std::to_string(n) + " requested bytes");
		return true;
	}
	void fill(void *p, size_t n, unsigned salt) { for(size_t k : probes(n)) ((volatile unsigned char *)p)[k] = pat(k, salt); }
	void verify(void *p, size_t n, size_t upto, unsigned salt, const char *sig, const std::string &what) {
		for(size_t k : probes(n)) if(k < upto && ((volatile unsigned char *)p)[k] != pat(k, salt)) { ok(false, "C02", sig, what + ": byte " + std::to_string(k) + " of the block changed"); return; }
	}
	long pages() { return (long)pool().numUsedPages(); }
	size_t mapped_bytes() { size_t s = 0; for(auto &kv : HS.regions) s += kv.second.len; return s; }

	void script(size_t n) {
		// a small block that lives through everything: its content and the slab it sits in must not be disturbed
		void *keep = pool().allocate(40); if(!check_block(keep, 40, "allocate")) return; memset(keep, 0x3c, 40);
		long base_pages; size_t base_regions, base_bytes;
		auto baseline = [&] { base_pages = pages(); base_regions = HS.regions.size(); base_bytes = mapped_bytes(); };
		baseline();
		auto all_returned = [&](const char *how) {
			ok(pages() == base_pages, "C03", "huge:page-counter-drift", std::string("the used-page counter is ") + std::to_string(pages()) + " after " + how + ", " + std::to_string(base_pages) + " before the large blocks were allocated");
			ok(HS.regions.size() == base_regions && mapped_bytes() == base_bytes, "C03", "huge:large-not-returned", std::string("memory of a large block is still mapped after ") + how);
		};

		// 1. allocate / touch / second block / free
		{
			void *p = pool().allocate(n); bool pu = check_block(p, n, "allocate"); if(pu) fill(p, n, 1);
			long up = pages() - base_pages;
			ok(up > 0 && (size_t)up <= (mapped_bytes() - base_bytes + 4095) / 4096, "C03", "huge:page-counter-rise", "the used-page counter rose by " + std::to_string(up) + " pages when a region of " + std::to_string(mapped_bytes() - base_bytes) + " bytes was taken");
			void *q = pool().allocate(n + 4096); bool qu = check_block(q, n + 4096, "allocate"); if(qu) fill(q, n + 4096, 2);
			if(p && q) { uintptr_t a = (uintptr_t)p, b = (uintptr_t)q; ok(a + n <= b || b + n + 4096 <= a, "C01", "huge:overlap", "two live blocks overlap"); }
			if(pu) verify(p, n, n, 1, "huge:content-changed", "after another allocate");
			if(q) pool().free(q);
			if(pu) verify(p, n, n, 1, "huge:content-changed", "after freeing another block");
			if(pu) ok(pool().get_size(p) >= n, "C01", "huge:get_size-changed", "reported size of a live block changed");
			if(p) pool().free(p);
			all_returned("free of all large blocks");
		}
		// 2. realloc from a patterned small / medium / large block up to n, then down again, then (p, 0)
		for(size_t from : {size_t(24), size_t(48), size_t(40000), size_t(300000)}) {
			void *s = pool().allocate(from); if(!check_block(s, from, "allocate")) continue;
			if(from <= 1024) baseline();   // a small block may have brought a slab with it, and slabs stay
			for(size_t k = 0; k < from; k++) ((unsigned char *)s)[k] = pat(k, 3);
			void *r = pool().realloc(s, n); bool ru = check_block(r, n, "realloc");
			std::string d = "realloc(" + std::to_string(from) + " -> " + std::to_string(n) + ")";
			if(!r) continue;
			// the old contents must be there whatever else is wrong with the block
			if(!ok(HS.region_of((uintptr_t)r, from) != nullptr, "C02", "huge:realloc-content", d + ": the returned block cannot hold the old contents (it is not " + std::to_string(from) + " bytes of mapped memory)")) continue;
			for(size_t k = 0; k < from; k++) if(((unsigned char *)r)[k] != pat(k, 3)) { ok(false, "C02", "huge:realloc-content", d + " lost byte " + std::to_string(k)); break; }
			if(!ru) continue;
			std::vector<size_t> W = probes(n); for(size_t k : probes(n - 4097)) W.push_back(k);     // the positions written: both ends of both sizes
			for(size_t k : W) if(k >= from) ((volatile unsigned char *)r)[k] = pat(k, 3);
			void *t = pool().realloc(r, n - 4097);
			if(!check_block(t, n - 4097, "realloc")) continue;
			for(size_t k : W) if(k < n - 4097 && ((volatile unsigned char *)t)[k] != pat(k, 3)) { ok(false, "C02", "huge:realloc-content", d + " then shrinking by 4097 bytes: byte " + std::to_string(k) + " of the block changed"); break; }
			void *u = pool().realloc(t, 0); ok(u == nullptr, "C02", "huge:realloc-zero", "realloc(p, 0) returned a block");
			all_returned("realloc(p, 0) of the large block");
		}
		// 3. realloc(null, n) and sized deallocate
		{
			void *z = pool().realloc(nullptr, n);
			if(check_block(z, n, "realloc(null)")) { fill(z, n, 4); verify(z, n, n, 4, "huge:content-changed", "fresh block"); }
			if(z) pool().deallocate(z, n);
			all_returned("deallocate(p, n) of the large block");
		}
		for(int k = 0; k < 40; k++) if(((unsigned char *)keep)[k] != 0x3c) { ok(false, "C02", "huge:bystander-changed", "a small live block changed while large blocks came and went"); break; }
		pool().free(keep);
	}
};

template<bool Aligned, bool Poison>
static void run_cfg(Enumerator &E, const std::vector<size_t> &sizes, const char *cfg) {
	for(size_t n : sizes) E.eval(std::string(cfg) + " n=" + std::to_string(n), "slab.huge", [&] { HugeRun<Aligned, Poison> R; R.script(n); });
}

static std::vector<Instance> instances(const std::string &tier) {
	bool th = tier == "thorough";
	std::vector<Instance> v;
	auto add = [&](const std::string &name, std::function<InstResult(const std::vector<CrashInfo> &)> f) {
		Instance i; i.name = name; i.run = f;
		i.replay = [f](const std::string &) { InstResult r = f({}); for(auto &x : r.violations) printf("REPLAY-VIOLATION property=%s sig=%s: %s [%s]\n", x.prop.c_str(), x.sig.c_str(), x.msg.c_str(), x.history.c_str()); return (int)r.violations.size(); };
		v.push_back(i);
	};
	const size_t G2 = size_t(1) << 31, G4 = size_t(1) << 32;
	std::vector<size_t> sizes;
	for(size_t m : {G2, G4, G4 + G2, 2 * G4}) for(long d : {-8192L, -4097L, -4096L, -4095L, -100L, -1L, 0L, 1L, 100L, 4095L, 4096L, 4097L, 8192L}) sizes.push_back(m + d);
	sizes.push_back(5 * (size_t(1) << 30) + 12345);
	if(th) for(size_t m = 3; m <= 17; m++) for(long d : {-4096L, -1L, 0L, 1L, 4097L}) sizes.push_back(m * G4 / 2 + d + (m & 1 ? 0 : 123456));
	auto mk = [&](const char *name, auto fn) { add(name, [=](const std::vector<CrashInfo> &cr) { Enumerator E(name, WANT(), cr); fn(E); return E.finish(); }); };
	mk("huge-aligned-poison", [=](Enumerator &E) { run_cfg<true, true>(E, sizes, "aligned+poison"); });
	mk("huge-aligned-plain", [=](Enumerator &E) { run_cfg<true, false>(E, sizes, "aligned"); });
	mk("huge-unaligned-poison", [=](Enumerator &E) { run_cfg<false, true>(E, sizes, "one-arg-map+poison"); });
	mk("huge-unaligned-plain", [=](Enumerator &E) { run_cfg<false, false>(E, sizes, "one-arg-map"); });
	return v;
}
int main(int argc, char **argv) { return harness_main(argc, argv, instances); }
