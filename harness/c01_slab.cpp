// C01-C04: frg::slab_pool single-threaded state-space exploration.
//  * ArenaPolicy: deterministic first-fit map/unmap over a fixed arena, callback log, byte shadow
//    for the poison protocol, forwarding to ASan manual poisoning (so the pool's own accesses to
//    poisoned bytes are ASan reports), optional failure injection (map returns 0).
//  * CountingMutex: asserts balanced lock/unlock, detects self-deadlock.
//  * BFS over alloc/free/deallocate/realloc histories with at most L live blocks; canon = raw bytes of
//    the pool object and of every mapped region + region table + live set (deterministic addresses).
// Violations are attributed to C01 (validity/size/alignment/disjointness), C02 (contents, realloc/free
// semantics, footprint), C03 (policy protocol, page accounting, poisoning) and C04 (map failure).
#include "../engine/seqmc.hpp"
#include "../engine/enumerate.hpp"
#include <functional>
#include <frg/slab.hpp>
#include <algorithm>
#include <map>

using namespace verif;

#if VERIF_ASAN
#define APOISON(p, n) __asan_poison_memory_region((p), (n))
#define AUNPOISON(p, n) __asan_unpoison_memory_region((p), (n))
#else
#define APOISON(p, n) ((void)0)
#define AUNPOISON(p, n) ((void)0)
#endif

static constexpr size_t ARENA_SIZE = 64u << 20;   // two zones of 32 MiB
static unsigned char *arena_base = nullptr;
static int g_mutex_held = 0;
static const char *g_fail_prop = "C04";   // property that violations of failing-map operations are attributed to (C02/C03/C04, whichever is being checked)
static const char *g_lock_prop = "C04";   // property that lock-discipline violations are attributed to (C05 when the re-entrant policy is being checked)
static bool g_poison_first = false;   // running for C03: after a failed map() the poison invariants are checked before the C04 oracle

struct CountingMutex {
	bool held = false;
	void lock() { if(held) note(g_lock_prop, "mutex:relock", "a pool mutex was locked while already held (self-deadlock with a real mutex)"); held = true; g_mutex_held++; }
	void unlock() { if(!held) note(g_lock_prop, "mutex:unlock-free", "a pool mutex was unlocked while not held"); else g_mutex_held--; held = false; }
};

struct Region { uintptr_t base; size_t len; size_t align; int serial; long pages; bool large; };

struct PolicyState {
	std::map<uintptr_t, Region> regions;       // live mapped regions by base
	size_t high = 0, high2 = 0;                // high-water marks of the two arena zones (bytes from zone start)
	int serial = 0;
	int maps = 0, unmaps = 0, fail_at = -1, maps_this_op = 0;
	std::vector<Region> taken, returned;       // during the current op
	bool poisoning = false;
	size_t page = 0, skew = 0, sb = 0, slab_reservation = 0;
	std::function<void()> reenter;             // the policy uses the pool itself from inside its first map() of this op (C05: it may)
	bool reentered = false;
};
static PolicyState PS;
static unsigned char *g_shadow = nullptr;       // 1 = poisoned, indexed by arena offset (only with poisoning)
static constexpr size_t SLACK = 16 << 10;      // poisoned guard zone past the high-water mark

static uintptr_t arena_map(size_t len, size_t align, size_t skew) {
	PS.maps++; PS.maps_this_op++;
	if(g_mutex_held) note("C05", "policy:map-under-lock", "Policy::map called while a pool mutex is held");
	if(PS.reenter && !PS.reentered) { PS.reentered = true; int keep = PS.maps_this_op; PS.reenter(); PS.maps_this_op = keep; }
	if(PS.fail_at >= 0 && PS.maps_this_op == PS.fail_at + 1) return 0;
	// first fit: lowest base with base % align == skew, not overlapping any region.  Reservations of
	// exactly the slab reservation size are placed in the lower half of the arena, everything else in
	// the upper half: a legitimate deterministic policy that keeps the number of distinct address
	// layouts (and hence states) small.
	uintptr_t lo = (uintptr_t)arena_base + (len == PS.slab_reservation ? 0 : ARENA_SIZE / 2);
	for(;;) {
		uintptr_t cand = lo;
		if(align > 1) { uintptr_t r = cand % align; uintptr_t want = skew % align; cand += (want + align - r) % align; }
		bool hit = false;
		for(auto &kv : PS.regions) {
			auto &r = kv.second;
			if(cand < r.base + r.len && r.base < cand + len) { lo = r.base + r.len; hit = true; break; }
		}
		if(!hit) {
			if(cand + len > (uintptr_t)arena_base + ARENA_SIZE) { fprintf(stderr, "arena exhausted\n"); abort(); }
			Region rg{cand, len, align, PS.serial++, 0, false};
			PS.regions[cand] = rg;
			PS.taken.push_back(rg);
			size_t off = cand - (uintptr_t)arena_base;
			// invariant: zone[0, high + SLACK) is ASan-poisoned except for mapped regions (which follow the shadow)
			if(off >= ARENA_SIZE / 2) { size_t h2 = off - ARENA_SIZE / 2 + len; if(h2 > PS.high2) { APOISON(arena_base + ARENA_SIZE / 2 + PS.high2 + SLACK, h2 - PS.high2); PS.high2 = h2; } }
			else { size_t h1 = off + len; if(h1 > PS.high) { APOISON(arena_base + PS.high + SLACK, h1 - PS.high); PS.high = h1; } }
			if(PS.poisoning) { memset(g_shadow + off, 1, len); APOISON((void *)cand, len); }
			else AUNPOISON((void *)cand, len);
			return cand;
		}
	}
}
static void arena_unmap(uintptr_t base, size_t len) {
	PS.unmaps++;
	if(g_mutex_held) note("C05", "policy:unmap-under-lock", "Policy::unmap called while a pool mutex is held");
	auto it = PS.regions.find(base);
	if(it == PS.regions.end()) {
		note("C03", "protocol:unmap-unknown-base", "unmap() of a base that is not a currently mapped region");
		// a real munmap() would give the range back all the same: every region it overlaps is gone for the pool (C01: live
		// blocks must lie in memory the pool "has not given back"), and its memory becomes inaccessible
		for(auto r = PS.regions.begin(); r != PS.regions.end();) {
			if(base < r->second.base + r->second.len && r->second.base < base + len) {
				AUNPOISON((void *)r->second.base, r->second.len);
				if(PS.poisoning) memset(g_shadow + (r->second.base - (uintptr_t)arena_base), 0, r->second.len);
				APOISON((void *)r->second.base, r->second.len);
				r = PS.regions.erase(r);
			} else ++r;
		}
		return;
	}
	if(it->second.len != len) note("C03", "protocol:unmap-wrong-length", "unmap(base, " + std::to_string(len) + ") but map was asked for " + std::to_string(it->second.len));
	PS.returned.push_back(it->second);
	size_t off = base - (uintptr_t)arena_base;
	AUNPOISON((void *)base, it->second.len);
	memset((void *)base, 0, it->second.len);
	if(PS.poisoning) memset(g_shadow + off, 0, it->second.len);
	APOISON((void *)base, it->second.len);    // returned memory is inaccessible to the pool
	PS.regions.erase(it);
}
static void shadow_set(void *p, size_t n, unsigned char v, const char *what) {
	uintptr_t a = (uintptr_t)p;
	if(a < (uintptr_t)arena_base || a + n > (uintptr_t)arena_base + ARENA_SIZE) {
		// (in an operation whose map() call is made to fail, this is "returns null without touching anything": the failing-map property's)
		bool failing = PS.fail_at >= 0 && PS.maps_this_op > PS.fail_at;
		note(failing ? g_fail_prop : "C03", std::string("poison:") + what + "-outside-arena", std::string(what) + "(" + std::to_string(a) + ", " + std::to_string(n) + ") called on memory the policy never handed out" + (failing ? " (after map() returned 0)" : "")); return; }
	memset(g_shadow + (a - (uintptr_t)arena_base), v, n);
	if(v) APOISON(p, n); else AUNPOISON(p, n);
}

template<size_t Page, size_t Slab, size_t Sb, int NB, bool Aligned, bool Poison>
struct ArenaPolicy {
	static constexpr size_t pagesize = Page;
	static constexpr size_t slabsize = Slab;
	static constexpr size_t sb_size = Sb;
	static constexpr int num_buckets = NB;
	uintptr_t map(size_t len, size_t align) requires Aligned { return arena_map(len, align, 0); }
	uintptr_t map(size_t len) requires (!Aligned) { return arena_map(len, Sb, PS.skew); }
	void unmap(uintptr_t base, size_t len) { arena_unmap(base, len); }
	void poison(void *p, size_t n) requires Poison { shadow_set(p, n, 1, "poison"); }
	void unpoison(void *p, size_t n) requires Poison { shadow_set(p, n, 0, "unpoison"); }
	void unpoison_expand(void *p, size_t n) requires Poison { shadow_set(p, n, 0, "unpoison_expand"); }
};

// ASan state is kept in sync incrementally by the policy callbacks (see the invariant in arena_map).
// The harness itself only touches the requested bytes of live blocks, which the protocol keeps
// unpoisoned.  Only canon() reads whole regions: it opens them and restores the shadow state.
static void asan_open() {}
static void asan_close() {}
static void regions_open() {
#if VERIF_ASAN
	for(auto &kv : PS.regions) AUNPOISON((void *)kv.first, kv.second.len);
#endif
}
static void regions_close() {
#if VERIF_ASAN
	if(!PS.poisoning) return;
	for(auto &kv : PS.regions) {
		size_t off = kv.first - (uintptr_t)arena_base;
		size_t run_start = 0; bool in_run = false;
		for(size_t g = 0; g < kv.second.len; g += 8) {
			const unsigned char *sh = g_shadow + off + g;
			uint64_t w; memcpy(&w, sh, 8);
			bool all_poisoned = (w == 0x0101010101010101ULL);
			if(all_poisoned) { if(!in_run) { in_run = true; run_start = g; } continue; }
			if(in_run) { APOISON(arena_base + off + run_start, g - run_start); in_run = false; }
			if(w == 0) continue;
			size_t k = 0; while(k < 8 && !sh[k]) k++;               // leading addressable bytes
			bool rest_poisoned = true; for(size_t j = k; j < 8; j++) if(!sh[j]) rest_poisoned = false;
			if(rest_poisoned && k) { APOISON(arena_base + off + g, 8); AUNPOISON(arena_base + off + g, k); }
		}
		if(in_run) APOISON(arena_base + off + run_start, kv.second.len - run_start);
	}
#endif
}

static inline unsigned char pat(uintptr_t addr) { uintptr_t o = addr - (uintptr_t)arena_base; return (unsigned char)(0x80 | ((o * 2654435761u) >> 13)); }

struct Block { uintptr_t p; size_t req; size_t size; bool large; };

template<class Cfg>
struct SlabHarness : HarnessBase {
	using Policy = Cfg;
	using Pool = frg::slab_pool<Policy, CountingMutex>;
	static constexpr bool poisoning = requires(Policy p) { p.poison(nullptr, size_t(0)); };
	static constexpr bool aligned = requires(Policy p) { p.map(size_t(0), size_t(0)); };
	int L; size_t skew; int fail_budget;
	std::vector<size_t> sizes;
	Policy policy;
	alignas(64) unsigned char pool_store[sizeof(Pool)];
	std::vector<Block> live;
	int fails_used = 0;
	size_t max_small = 0;                       // largest small class, measured black-box
	std::map<size_t, size_t> per_slab;          // class size -> blocks per slab (measured)
	std::map<size_t, int> slabs_of;             // class size -> slabs mapped so far
	std::map<uintptr_t, long> region_pages;     // region base -> pages credited

	SlabHarness(int L_, size_t skew_, int fail_budget_, std::vector<size_t> sizes_, bool reentrant_ = false, bool facade_ = false) : L(L_), skew(skew_), fail_budget(fail_budget_), sizes(std::move(sizes_)) {
		reentrant = reentrant_; facade = facade_; fail_second = fail_budget_ > 0;
		if(!arena_base) {
			arena_base = (unsigned char *)mmap(nullptr, ARENA_SIZE + (8u << 20) + SLACK, PROT_READ | PROT_WRITE, MAP_PRIVATE | MAP_ANONYMOUS | MAP_NORESERVE, -1, 0);
			arena_base = (unsigned char *)(((uintptr_t)arena_base + (4u << 20) - 1) & ~(uintptr_t)((4u << 20) - 1));
			g_shadow = (unsigned char *)mmap(nullptr, ARENA_SIZE + 2 * SLACK, PROT_READ | PROT_WRITE, MAP_PRIVATE | MAP_ANONYMOUS | MAP_NORESERVE, -1, 0);
		}
		measure();
#if VERIF_ASAN
		san_hook() = &classify_report;
#endif
	}
	// a library assertion or crash inside a legal call is a violation of whichever of C01-C03 is being checked
	const char *prop() const { const std::string &w = wanted_prop(); return w == "C02" ? "C02" : w == "C03" ? "C03" : "C01"; }
	// an ASan report inside a mapped region is a touch of a poisoned byte (C03); outside it is a wild access (C01)
	// (classified at the moment of the report: by the time the operation returns the region may have been unmapped)
	static inline const char *g_asan_class = "C01";
	static void classify_report(uintptr_t a) {
		g_asan_class = "C01";
		for(auto &kv : PS.regions) if(a >= kv.first && a < kv.first + kv.second.len) g_asan_class = "C03";
	}
	std::string asan_prop() {
#if VERIF_ASAN
		return g_asan_class;
#endif
		return "C01";
	}
	size_t exempt = (size_t)-1;   // index of the block a realloc is entitled to release
	Pool &pool() { return *reinterpret_cast<Pool *>(pool_store); }
	// the calls of an instance can be routed through frg::slab_allocator, the handle type users pass to containers
	bool facade = false;
	void *p_allocate(size_t n) { if(facade) { frg::slab_allocator<Policy, CountingMutex> f(&pool()); return f.allocate(n); } return pool().allocate(n); }
	void p_free(void *p) { if(facade) { frg::slab_allocator<Policy, CountingMutex> f(&pool()); f.free(p); return; } pool().free(p); }
	void p_deallocate(void *p, size_t n) { if(facade) { frg::slab_allocator<Policy, CountingMutex> f(&pool()); f.deallocate(p, n); return; } pool().deallocate(p, n); }
	void *p_realloc(void *p, size_t n) { if(facade) { frg::slab_allocator<Policy, CountingMutex> f(&pool()); return f.reallocate(p, n); } return pool().realloc(p, n); }
	size_t p_get_size(void *p) { if(facade) { frg::slab_allocator<Policy, CountingMutex> f(&pool()); return f.get_size(p); } return pool().get_size(p); }

	void fresh_world() {
#if VERIF_ASAN
		AUNPOISON(arena_base, PS.high + SLACK); AUNPOISON(arena_base + ARENA_SIZE / 2, PS.high2 + SLACK);
#endif
		if(PS.high) { memset(arena_base, 0, PS.high + SLACK); memset(g_shadow, 0, PS.high + SLACK); }
		if(PS.high2) { memset(arena_base + ARENA_SIZE / 2, 0, PS.high2 + SLACK); memset(g_shadow + ARENA_SIZE / 2, 0, PS.high2 + SLACK); }
		APOISON(arena_base, SLACK); APOISON(arena_base + ARENA_SIZE / 2, SLACK);
		PS = PolicyState{};
		PS.poisoning = poisoning; PS.page = Policy::pagesize; PS.skew = skew; PS.sb = Policy::sb_size;
		PS.slab_reservation = aligned ? Policy::slabsize : Policy::slabsize + Policy::sb_size;
		g_mutex_held = 0;
		// the pool is built in storage that is not all-zero (as on a re-used stack slot or heap block): what its
		// constructor leaves untouched stays this recognisable non-canonical pattern (and is part of the state key)
		memset(pool_store, 0xA5, sizeof pool_store);
		new(pool_store) Pool(policy);
		live.clear(); fails_used = 0; slabs_of.clear(); region_pages.clear();
		pending().reset();
	}
	// black-box measurement of the class structure on scratch pools: a request is "small" iff two
	// allocations of it can share one mapped region; blocks per slab = allocations until a second map.
	void measure() {
		std::vector<size_t> classes;
		size_t s = 1;
		for(int guard = 0; guard < 64; guard++) {
			fresh_world();
			asan_close(); void *a = pool().allocate(s); pool().allocate(s); asan_open();
			if(PS.regions.size() >= 2) break;     // each allocation needed its own region: large (regions held, not map() calls: an implementation may map transiently)
			size_t gs = pool().get_size(a);
			classes.push_back(gs); max_small = gs;
			s = gs + 1;
		}
		for(size_t c : classes) {
			fresh_world();
			size_t n = 0;
			while(PS.regions.size() < 2) { asan_close(); pool().allocate(c); asan_open(); n++; if(n > (1u << 20)) abort(); }
			per_slab[c] = n - 1;
		}
		fresh_world();
		pending().reset(); san_flag() = 0;
	}
	void reset() { fresh_world(); }

	enum { ALLOC, FREE, DEALLOC, REALLOC, REALLOC_NULL, ALLOC_FAIL, REALLOC_FAIL, REALLOC_NULL_FAIL, ALLOC_RF, ALLOC_FAIL_RF, ALLOC_FAIL2, REALLOC_FAIL2 };
	bool fail_second = false;   // also fail the second map() call of an operation (an implementation may map more than once per call)
	bool reentrant = false;   // alphabet includes allocations during whose map() call the policy frees a live block of the pool
	static uint32_t mk(uint32_t k, uint32_t i, uint32_t si) { return k | i << 8 | si << 16; }
	void ops(std::vector<uint32_t> &out) {
		for(uint32_t si = 0; si < sizes.size(); si++) {
			if((int)live.size() < L) {
				out.push_back(mk(ALLOC, 0, si));
				if(si == 1) out.push_back(mk(REALLOC_NULL, 0, si));
				if(fails_used < fail_budget) out.push_back(mk(ALLOC_FAIL, 0, si));
				if(fail_second && fails_used < fail_budget) out.push_back(mk(ALLOC_FAIL2, 0, si));
			}
			// the policy frees live block i from inside map() (with map succeeding, and with map failing)
			if(reentrant && (int)live.size() <= L) for(uint32_t i = 0; i < live.size(); i++) {
				out.push_back(mk(ALLOC_RF, i, si));
				if(fails_used < fail_budget) out.push_back(mk(ALLOC_FAIL_RF, i, si));
			}
		}
		for(uint32_t i = 0; i < live.size(); i++) {
			out.push_back(mk(FREE, i, 0)); out.push_back(mk(DEALLOC, i, 0));
			for(uint32_t si = 0; si < sizes.size(); si++) {
				out.push_back(mk(REALLOC, i, si));
				if(fails_used < fail_budget && sizes[si] > live[i].size) out.push_back(mk(REALLOC_FAIL, i, si));
				if(fail_second && fails_used < fail_budget && sizes[si] > live[i].size) out.push_back(mk(REALLOC_FAIL2, i, si));
			}
		}
	}
	std::string show_class(uint32_t op) { static const char *nm[] = {"allocate", "free", "deallocate", "realloc", "realloc(null)", "allocate[map fails]", "realloc[map fails]", "realloc(null)[map fails]", "allocate[policy frees a block inside map]", "allocate[policy frees a block inside map, map fails]", "allocate[second map fails]", "realloc[second map fails]"}; return std::string("slab.") + nm[op & 0xff]; }
	std::string show(uint32_t op) {
		char b[96]; uint32_t k = op & 0xff, i = (op >> 8) & 0xff, si = op >> 16;
		if(k == ALLOC || k == REALLOC_NULL || k == ALLOC_FAIL || k == ALLOC_FAIL2) snprintf(b, sizeof b, "%s(%zu)", show_class(op).c_str(), sizes[si]);
		else if(k == ALLOC_RF || k == ALLOC_FAIL_RF) snprintf(b, sizeof b, "%s(%zu; frees b%u)", show_class(op).c_str(), sizes[si], i);
		else if(k == FREE || k == DEALLOC) snprintf(b, sizeof b, "%s(b%u)", show_class(op).c_str(), i);
		else snprintf(b, sizeof b, "%s(b%u,%zu)", show_class(op).c_str(), i, sizes[si]);
		return b;
	}
	[[noreturn]] void fail(const char *prop, const std::string &sig, const std::string &msg) { throw Violation{prop, "slab:" + sig, msg}; }

	void fill(const Block &b) { for(size_t i = 0; i < b.req; i++) ((unsigned char *)b.p)[i] = pat(b.p + i); }
	void verify_patterns(const char *when) {
		for(auto &b : live) for(size_t i = 0; i < b.req; i++)
			if(((unsigned char *)b.p)[i] != pat(b.p + i)) fail("C02", std::string("content-changed:") + when, "bytes of a live block were changed by the pool (block at arena+" + std::to_string(b.p - (uintptr_t)arena_base) + ", offset " + std::to_string(i) + ")");
	}
	const Region *region_of(uintptr_t p, size_t n) {
		auto it = PS.regions.upper_bound(p);
		if(it == PS.regions.begin()) return nullptr;
		--it;
		if(p >= it->second.base && p + n <= it->second.base + it->second.len) return &it->second;
		return nullptr;
	}
	// validity of a freshly returned block (C01)
	void check_new_block(uintptr_t p, size_t req, size_t skip_index) {
		size_t want = req ? req : 1;
		size_t gs = p_get_size((void *)p);
		if(gs < want) fail("C01", "too-small", "get_size() = " + std::to_string(gs) + " for a request of " + std::to_string(req));
		if(!region_of(p, gs)) fail("C01", "outside-mapped-memory", "block [arena+" + std::to_string(p - (uintptr_t)arena_base) + ", +" + std::to_string(gs) + ") is not inside memory the pool currently holds from its policy");
		size_t al = 8; while(al < want && al < Policy::pagesize) al <<= 1;
		if(al > Policy::pagesize) al = Policy::pagesize;
		if(p % al) fail("C01", "misaligned", "block for a request of " + std::to_string(req) + " is not aligned to " + std::to_string(al));
		for(size_t j = 0; j < live.size(); j++) if(j != skip_index) {
			auto &o = live[j];
			if(p < o.p + o.size && o.p < p + gs) fail("C01", "overlap", "a new block overlaps a live block");
		}
	}

	// ---- one pool call, with protocol bookkeeping around it
	size_t used_before = 0; std::string canon_before;
	void begin_op(int fail_at) {
		PS.taken.clear(); PS.returned.clear(); PS.maps_this_op = 0; PS.fail_at = fail_at;
		used_before = pool().numUsedPages();
		asan_close();
	}
	// large_req: the request that may legitimately take a region of its own
	void end_op(const std::string &what, bool alloc_like, size_t req, bool result_nonnull) {
		asan_open();
		// when map() was made to fail in this op, everything that goes wrong belongs to C04
		bool failing = PS.fail_at >= 0 && PS.maps_this_op > PS.fail_at;
		const char *P3 = failing ? g_fail_prop : "C03", *P2 = failing ? g_fail_prop : "C02";
		PS.fail_at = -1;
		if(g_mutex_held) { g_mutex_held = 0; fail(g_lock_prop, "mutex-left-locked", "a pool mutex is still locked after " + what + " returned"); }
		size_t used = pool().numUsedPages();
		if(used > (size_t(1) << 40)) fail(P3, "pages-underflow", "numUsedPages() wrapped around");
		long delta = (long)used - (long)used_before;
		long returned = 0;
		// a region that was mapped and returned again within this call is transient (e.g. an exact-size attempt that turned
		// out misaligned, replaced by an over-reservation): the property does not forbid it and there is nothing to account
		{
			std::vector<Region> t2, r2;
			for(auto &t : PS.taken) { bool transient = false; for(auto &r : PS.returned) if(r.serial == t.serial) transient = true; if(!transient) t2.push_back(t); }
			for(auto &r : PS.returned) { bool transient = false; for(auto &t : PS.taken) if(r.serial == t.serial) transient = true; if(!transient) r2.push_back(r); }
			PS.taken = t2; PS.returned = r2;
		}
		for(auto &r : PS.returned) {
			auto it = region_pages.find(r.base);
			if(it == region_pages.end()) fail(P3, "protocol:unmap-untracked", "unmapped a region the harness has no record of");
			returned += it->second; region_pages.erase(it);
			for(size_t bi = 0; bi < live.size(); bi++) if(bi != exempt) if(auto &b = live[bi]; b.p < r.base + r.len && r.base < b.p + b.size) fail(P3, "protocol:unmap-with-live-block", "a region was unmapped while a live block lies inside it");
		}
		if(PS.taken.size() > 1) fail(P3, "protocol:two-maps", "one call kept more than one newly mapped region");
		if(PS.taken.size() == 1) {
			long credited = delta + returned;
			auto &r = PS.taken[0];
			long maxpages = (long)((r.len + Policy::pagesize - 1) / Policy::pagesize);
			if(result_nonnull) {
				if(credited <= 0 || credited > maxpages) fail(P3, "pages:credit-out-of-range", "taking a region of " + std::to_string(r.len) + " bytes changed numUsedPages() by " + std::to_string(credited));
				region_pages[r.base] = credited;
			}
			bool small = (req ? req : 1) <= max_small;
			if(alloc_like && result_nonnull && small) {
				// footprint (C02): a new slab only when every slab of the class is full
				size_t cls = 0; for(auto &kv : per_slab) if(kv.first >= (req ? req : 1)) { cls = kv.first; break; }
				size_t live_in_class = 0; for(auto &b : live) if(b.size == cls && !b.large) live_in_class++;
				if(PS.reentered && reentrant_freed.p && reentrant_freed.size == cls && !reentrant_freed.large) live_in_class++;   // it was live when map() was called
				// (the new block itself is not yet in `live`)
				if(live_in_class != (size_t)slabs_of[cls] * per_slab[cls])
					fail(P2, "footprint:slab-mapped-while-free-objects", "a new slab of class " + std::to_string(cls) + " was mapped while " + std::to_string(slabs_of[cls]) + " slab(s) hold only " + std::to_string(live_in_class) + " live blocks (" + std::to_string(per_slab[cls]) + " fit in one)");
				slabs_of[cls]++;
			}
		} else if(delta != -returned) fail(P3, "pages:drift", what + " changed numUsedPages() by " + std::to_string(delta) + " although regions worth " + std::to_string(returned) + " pages were returned and none taken");
		raise_pending();
	}

	void do_alloc(size_t req, bool via_realloc, int fail_at) {
		if(fail_at >= 0) { canon_before.clear(); canon(canon_before); }
		begin_op(fail_at);
		void *p = via_realloc ? p_realloc(nullptr, req) : p_allocate(req);
		bool failed = fail_at >= 0 && PS.maps_this_op > fail_at;
		end_op("allocate", true, req, p != nullptr);
		if(fail_at >= 0) {
			if(failed) {
				fails_used++;
				if(poisoning && g_poison_first) for(auto &b : live) check_unpoisoned(b);
				if(p) fail(g_fail_prop, "alloc-nonnull-after-map-failure", "allocate returned a block although map() failed");
				// "the pool keeps working": a request that a free object of its class can serve does not need map() at all, so a
				// failing map() must not make it fail (the policy's re-entrant free, if any, happens inside map() and does not count)
				if((req ? req : 1) <= max_small && !PS.reentered) {
					size_t cls = 0; for(auto &kv : per_slab) if(kv.first >= (req ? req : 1)) { cls = kv.first; break; }
					size_t live_in_class = 0; for(auto &b : live) if(b.size == cls && !b.large) live_in_class++;
					if(live_in_class < (size_t)slabs_of[cls] * per_slab[cls])
						fail(g_fail_prop, "alloc-failed-although-free-object", "allocate(" + std::to_string(req) + ") asked map() for memory and failed although " + std::to_string(slabs_of[cls]) + " slab(s) of class " + std::to_string(cls) + " hold only " + std::to_string(live_in_class) + " live blocks");
				}
				fails_used--; std::string after; canon(after); fails_used++;
				if(after != canon_before) fail(g_fail_prop, "state-changed-after-failed-alloc", "pool state / mapped regions / page counter differ after an allocation that failed in map()");
				verify_patterns("failed-alloc");
				return;
			}
			// the op did not need to map: behaves like the ordinary op (counted as no deviation)
		}
		if(!p && via_realloc) fail("C02", "realloc-null-not-allocate", "realloc(nullptr, " + std::to_string(req) + ") returned null although map() did not fail: (null, n) is allocate(n)");
		if(!p) fail("C01", "null-without-failure", "allocate returned null although map() did not fail");
		check_new_block((uintptr_t)p, req, (size_t)-1);
		Block b{(uintptr_t)p, req, p_get_size(p), p_get_size(p) > max_small};
		if(poisoning) check_unpoisoned(b);
		fill(b);
		live.push_back(b);
		verify_patterns("alloc");
	}
	// allocate(req) during whose (first) map() call the policy frees live block i through the pool's public interface -
	// C05: "map and unmap are invoked only while the calling thread holds none of the pool's locks, so a policy may itself
	// use the pool".  With fail_at >= 0 that map() call then fails (C04: nothing left locked, the pool keeps working).
	Block reentrant_freed{0, 0, 0, false};
	void do_alloc_reentrant(size_t req, uint32_t i, int fail_at) {
		Block victim = live[i];
		memset((void *)victim.p, 0, victim.req);
		live.erase(live.begin() + i);
		reentrant_freed = victim;
		PS.reentered = false;
		PS.reenter = [this, victim] { pool().free((void *)victim.p); };
		struct Clear { SlabHarness *h; ~Clear() { PS.reenter = nullptr; PS.reentered = false; h->reentrant_freed = Block{0, 0, 0, false}; } } clear{this};
		begin_op(fail_at);
		void *p = p_allocate(req);
		bool failed = fail_at >= 0 && PS.maps_this_op > fail_at;
		bool did = PS.reentered;
		if(did && !victim.large) { auto it = slabs_of.find(victim.size); (void)it; }
		end_op("allocate", true, req, p != nullptr);
		if(!did) {
			// the request was served without mapping: the policy was never entered, the victim is still allocated
			live.push_back(victim); fill(victim);
		} else if(victim.large && region_of(victim.p, 1)) fail("C03", "protocol:large-not-unmapped", "a large block freed by the policy from inside map() did not return its region");
		if(failed) {
			fails_used++;
			// a retry that finds the block the policy just freed would be as good as null; anything else must be null
			if(p && !(did && (uintptr_t)p == victim.p)) fail(g_fail_prop, "alloc-nonnull-after-map-failure", "allocate returned a block although map() failed");
			if(!p) { verify_patterns("failed-alloc"); return; }
		}
		if(!p) fail("C01", "null-without-failure", "allocate returned null although map() did not fail");
		check_new_block((uintptr_t)p, req, (size_t)-1);
		Block b{(uintptr_t)p, req, p_get_size(p), p_get_size(p) > max_small};
		if(poisoning) check_unpoisoned(b);
		fill(b);
		live.push_back(b);
		verify_patterns("alloc");
	}
	void check_unpoisoned(const Block &b) {
		for(size_t i = 0; i < b.req; i++) if(g_shadow[b.p - (uintptr_t)arena_base + i]) fail("C03", "poison:live-byte-poisoned", "a requested byte of a live block is poisoned");
	}
	void do_free(uint32_t i, bool sized) {
		Block b = live[i];
		memset((void *)b.p, 0, b.req);
		live.erase(live.begin() + i);
		const Region *rg = region_of(b.p, b.size);
		bool large = b.large;
		uintptr_t rbase = rg ? rg->base : 0;
		begin_op(-1);
		if(sized) p_deallocate((void *)b.p, b.req); else p_free((void *)b.p);
		end_op("free", false, 0, false);
		if(large) { if(PS.regions.count(rbase)) fail("C03", "protocol:large-not-unmapped", "freeing a large block did not return its region"); }
		else {
			if(!PS.regions.count(rbase)) fail("C03", "protocol:slab-unmapped", "freeing a small block unmapped its slab");
			if(poisoning) {
				for(size_t k = sizeof(void *); k < b.size; k++) if(!g_shadow[b.p - (uintptr_t)arena_base + k]) fail("C03", "poison:freed-block-not-poisoned", "a freed small block is not poisoned again beyond its link word (offset " + std::to_string(k) + ")");
			}
		}
		verify_patterns("free");
	}
	void do_realloc(uint32_t i, size_t n, int fail_at) {
		Block old = live[i];
		if(n == 0) {
			// (p, 0) is free
			memset((void *)old.p, 0, old.req);
			live.erase(live.begin() + i);
			begin_op(-1);
			void *r = p_realloc((void *)old.p, 0);
			end_op("realloc(p,0)", false, 0, false);
			if(r) fail("C02", "realloc-zero-nonnull", "realloc(p, 0) returned a non-null pointer");
			if(old.large && region_of(old.p, 1)) fail("C03", "protocol:large-not-unmapped", "realloc(p,0) of a large block did not return its region");
			verify_patterns("realloc0");
			return;
		}
		if(fail_at >= 0) { canon_before.clear(); canon(canon_before); }
		begin_op(fail_at);
		exempt = i;
		void *r = p_realloc((void *)old.p, n);
		bool failed = fail_at >= 0 && PS.maps_this_op > fail_at;
		// for the accounting: a moving realloc takes a region on behalf of the new request
		size_t regions_before_unmap = PS.returned.size();
		(void)regions_before_unmap;
		struct Ex { size_t &e; ~Ex() { e = (size_t)-1; } } ex{exempt};
		end_op("realloc", r && (uintptr_t)r != old.p, n, r != nullptr);
		if(failed) {
			fails_used++;
			if(poisoning && g_poison_first) for(auto &b : live) for(size_t k = 0; k < b.req; k++) if(g_shadow[b.p - (uintptr_t)arena_base + k]) fail("C03", "poison:live-byte-poisoned-after-failed-realloc", "after a realloc that failed in map() a requested byte of a live block (the source included) is poisoned");
			if(r) fail(g_fail_prop, "realloc-nonnull-after-map-failure", "realloc returned a block although map() failed");
			fails_used--; std::string after; canon(after); fails_used++;
			if(after != canon_before) fail(g_fail_prop, "state-changed-after-failed-realloc", "pool state differs after a realloc that failed in map()");
			verify_patterns("failed-realloc");   // includes the source block
			if(p_get_size((void *)old.p) != old.size) fail(g_fail_prop, "source-size-changed", "the source block's size changed after a failed realloc");
			return;
		}
		if(!r) fail("C01", "null-without-failure", "realloc returned null although map() did not fail");
		size_t keep = std::min(old.req, n);
		if((uintptr_t)r == old.p) {
			if(PS.returned.size() || PS.taken.size()) fail("C02", "realloc-inplace-mapped", "an in-place realloc mapped or unmapped memory");
			size_t gs = p_get_size(r);
			// When this process checks C02 or C03, a reported-size finding (C01's) is noted on the side and the history goes on as
			// long as that is safe for the harness (the requested bytes are mapped and collide with nothing): otherwise what the
			// same defect does to contents or accounting a step later would never be looked at.
			bool safe = region_of((uintptr_t)r, n) != nullptr;
			for(size_t bi = 0; bi < live.size(); bi++) if(bi != i && (uintptr_t)r < live[bi].p + live[bi].size && live[bi].p < (uintptr_t)r + n) safe = false;
			auto c01 = [&](const char *sig, const char *msg) {
				if(!safe || wanted_prop().empty() || wanted_prop() == "C01") fail("C01", sig, msg);
				if(side_violations().size() < 64) side_violations().push_back(Violation{"C01", std::string("slab:") + sig, msg});
			};
			if(gs != old.size) c01("size-changed", "get_size() of a live block changed across an in-place realloc");
			if(gs < n) c01("too-small", "in-place realloc result is smaller than requested");
			for(size_t k = 0; k < keep; k++) if(((unsigned char *)r)[k] != pat(old.p + k)) fail("C02", "realloc-content", "in-place realloc changed the first min(old,new) bytes");
			live[i].req = n;
			if(poisoning) check_unpoisoned(live[i]);
			fill(live[i]);
		} else {
			check_new_block((uintptr_t)r, n, i);
			for(size_t k = 0; k < keep; k++) if(((unsigned char *)r)[k] != pat(old.p + k)) fail("C02", "realloc-content", "moved realloc result does not start with the old contents (offset " + std::to_string(k) + ")");
			// the old block must have been released: large -> region gone; small -> poisoned again / reusable
			if(old.large && region_of(old.p, 1)) fail("C02", "realloc-old-not-freed", "realloc moved a large block but did not return the old region");
			Block nb{(uintptr_t)r, n, p_get_size(r), p_get_size(r) > max_small};
			live[i] = nb;
			if(poisoning) check_unpoisoned(nb);
			fill(nb);
		}
		verify_patterns("realloc");
	}

	void apply(uint32_t op) {
		uint32_t k = op & 0xff, i = (op >> 8) & 0xff, si = op >> 16;
		switch(k) {
		case ALLOC: do_alloc(sizes[si], false, -1); break;
		case REALLOC_NULL: do_alloc(sizes[si], true, -1); break;
		case ALLOC_FAIL: do_alloc(sizes[si], false, 0); break;
		case FREE: do_free(i, false); break;
		case DEALLOC: do_free(i, true); break;
		case REALLOC: do_realloc(i, sizes[si], -1); break;
		case REALLOC_FAIL: do_realloc(i, sizes[si], 0); break;
		case ALLOC_FAIL2: do_alloc(sizes[si], false, 1); break;
		case REALLOC_FAIL2: do_realloc(i, sizes[si], 1); break;
		case ALLOC_RF: do_alloc_reentrant(sizes[si], i, -1); break;
		case ALLOC_FAIL_RF: do_alloc_reentrant(sizes[si], i, 0); break;
		}
	}
	void check_state() {
		// sizes stable, blocks inside mapped memory, pairwise disjoint, patterns intact
		for(size_t a = 0; a < live.size(); a++) {
			auto &b = live[a];
			if(p_get_size((void *)b.p) != b.size) fail("C01", "size-changed", "get_size() of a live block changed");
			if(!region_of(b.p, b.size)) fail("C01", "outside-mapped-memory", "a live block is no longer inside mapped memory");
			for(size_t c = a + 1; c < live.size(); c++) if(b.p < live[c].p + live[c].size && live[c].p < b.p + b.size) fail("C01", "overlap", "two live blocks overlap");
			if(poisoning) check_unpoisoned(b);
		}
		verify_patterns("state");
		// free(nullptr) / deallocate(nullptr, n) are no-ops
		int m = PS.maps, u = PS.unmaps; size_t used = pool().numUsedPages();
		asan_close(); p_free(nullptr); p_deallocate(nullptr, 16); asan_open();
		if(PS.maps != m || PS.unmaps != u || pool().numUsedPages() != used) fail("C02", "free-null-not-noop", "free(nullptr)/deallocate(nullptr) changed the pool");
		if(p_get_size(nullptr) != 0) fail("C02", "get_size-null", "get_size(nullptr) != 0");
		raise_pending();
		// large regions <-> live large blocks
		size_t nlarge = 0; for(auto &b : live) if(b.large) nlarge++;
		size_t nslab = 0; for(auto &kv : slabs_of) nslab += kv.second;
		if(PS.regions.size() != nlarge + nslab) fail("C03", "protocol:region-count", std::to_string(PS.regions.size()) + " regions mapped but " + std::to_string(nslab) + " slabs + " + std::to_string(nlarge) + " live large blocks expected");
		if(res) res->outcomes.insert("live=" + std::to_string(live.size()) + " regions=" + std::to_string(PS.regions.size()) + " fails=" + std::to_string(fails_used));
	}
	void final_check() {}
	void canon(std::string &out) {
		regions_open();
		struct Close { ~Close() { regions_close(); } } closer;
		out.append((const char *)pool_store, sizeof pool_store);
		for(auto &kv : PS.regions) {
			out.append((const char *)&kv.second.base, sizeof(uintptr_t)); out.append((const char *)&kv.second.len, sizeof(size_t));
			out.append((const char *)kv.second.base, kv.second.len);
			if(poisoning) out.append((const char *)g_shadow + (kv.second.base - (uintptr_t)arena_base), kv.second.len);
		}
		std::vector<Block> s = live;
		std::sort(s.begin(), s.end(), [](const Block &a, const Block &b) { return a.p < b.p; });
		for(auto &b : s) { out.append((const char *)&b.p, 8); out.append((const char *)&b.req, 8); }
		out.push_back((char)fails_used);
	}
};

// --------------------------------------------------------------------------------------------
//                       page  slab     sb       NB aligned poison
using CfgTinyA  = ArenaPolicy<256, 4096,   4096,    8, true,  true>;    // 3 x 1024 per slab
using CfgTinyU  = ArenaPolicy<256, 4096,   4096,    8, false, true>;    // one-argument map, misaligned bases
using CfgTinyNP = ArenaPolicy<256, 4096,   4096,    8, true,  false>;   // no poison hooks
using CfgSplit  = ArenaPolicy<256, 2048,   4096,    7, true,  true>;    // slab (2 KiB) < superblock (4 KiB)
using CfgSplitU = ArenaPolicy<256, 2048,   4096,    7, false, true>;    // the same with the one-argument map: the over-reservation is slab + sb, not 2 * slab
using CfgOdd    = ArenaPolicy<4096, 7 * 4096, 8 * 4096, 11, true, true>; // slab 7 pages, largest class 2 pages
using CfgPageSb = ArenaPolicy<1024, 1024, 1024, 6, true, true>;         // superblock == slab == page: large blocks are superblock-aligned
using CfgDefA   = ArenaPolicy<4096, 1 << 18, 1 << 18, 13, true, true>;   // defaults
using CfgDefU   = ArenaPolicy<4096, 1 << 18, 1 << 18, 13, false, false>;
using CfgBigPgA = ArenaPolicy<16384, 1 << 18, 1 << 18, 13, true, true>;   // a page size above 4 KiB (AArch64 16K/64K): what is written as 0x1000 instead of the page size shows
using CfgBigPgU = ArenaPolicy<16384, 1 << 18, 1 << 18, 13, false, false>;

template<class Cfg>
static Instance slab_inst(const std::string &name, int L, size_t skew, int fails, std::vector<size_t> sizes, int depth = 1 << 30, bool reentrant = false, bool facade = false) {
	BfsOptions o; o.max_depth = depth;
	return bfs_instance<SlabHarness<Cfg>>(name, o, L, skew, fails, sizes, reentrant, facade);
}

// Size sweep (engine C): from a few base states every request size from 0 up to 3 superblocks + 1 page
// (exhaustively up to the small/large threshold + 2 pages, then every size within +-2 of a page
// multiple) is allocated, checked, written, and freed; and every (old,new) pair over the class and
// page boundaries is realloc'ed.
template<class Cfg>
static Instance sweep_inst(const std::string &name, size_t skew, bool thorough, int only_base) {
	Instance inst; inst.name = name;
	inst.run = [=](const std::vector<CrashInfo> &cr) {
		Enumerator E(name, "C01", cr);
		SlabHarness<Cfg> h(1 << 20, skew, 0, {});
		h.res = &E.res;
		std::vector<size_t> sweep, bnd;
		size_t small_end = h.max_small + 2 * Cfg::pagesize;
		for(size_t s = 0; s <= small_end; s++) sweep.push_back(s);
		size_t top = 3 * Cfg::sb_size + Cfg::pagesize;
		for(size_t pg = small_end / Cfg::pagesize; pg * Cfg::pagesize <= top; pg++)
			for(long d = -2; d <= 2; d++) { long v = (long)(pg * Cfg::pagesize) + d; if(v > (long)small_end && v <= (long)top + 2) sweep.push_back((size_t)v); }
		for(auto &kv : h.per_slab) { bnd.push_back(kv.first); bnd.push_back(kv.first + 1); if(kv.first > 1) bnd.push_back(kv.first - 1); }
		bnd.push_back(1); bnd.push_back(h.max_small + Cfg::pagesize); bnd.push_back(h.max_small + Cfg::pagesize + 1); bnd.push_back(Cfg::sb_size); bnd.push_back(Cfg::sb_size + 1); bnd.push_back(2 * Cfg::sb_size + 1);
		std::sort(bnd.begin(), bnd.end()); bnd.erase(std::unique(bnd.begin(), bnd.end()), bnd.end());
		bool heavy = h.per_slab[h.max_small] * h.max_small > (64u << 10);   // a full slab of the largest class is expensive to re-verify
		for(int base = 0; base < 3; base++) {
			if(base != only_base) continue;
			if(base == 2 && heavy && !thorough) continue;
			auto build = [&] {
				h.reset();
				if(base == 1) for(auto &kv : h.per_slab) h.do_alloc(kv.first, false, -1);                 // one live block per class
				if(base == 2) for(size_t i = 0; i < h.per_slab[h.max_small]; i++) h.do_alloc(h.max_small, false, -1); // a full slab
			};
			build();
			for(size_t sz : sweep) {
				if(!thorough && sz > small_end && base == 2) continue;
				bool bad = false;
				E.eval("base" + std::to_string(base) + " alloc/free size=" + std::to_string(sz), "slab.sweep-allocate", [&] {
					bad = true;
					h.do_alloc(sz, false, -1); h.check_state(); h.do_free((uint32_t)h.live.size() - 1, sz & 1); h.check_state();
					if(sz <= 16 || sz % 5 == 0) { h.do_alloc(sz, true, -1); h.check_state(); h.do_free((uint32_t)h.live.size() - 1, !(sz & 1)); h.check_state(); }   // the same through realloc(nullptr, sz)
					bad = false;
				});
				if(bad) build();
			}
			if(base == 2 && !thorough) continue;
			for(size_t o : bnd) for(size_t n : bnd) {
				bool bad = false;
				E.eval("base" + std::to_string(base) + " realloc " + std::to_string(o) + "->" + std::to_string(n), "slab.sweep-realloc", [&] {
					bad = true;
					h.do_alloc(o, false, -1); h.do_realloc((uint32_t)h.live.size() - 1, n, -1); h.check_state();
					// and once more, to a size that certainly moves the block: what the first realloc left behind (a stale length, a
					// block grown or shrunk in place) decides how much the second one copies
					// a block shrunk in place is first grown back, in place, to exactly its former page-rounded size (the whole area
					// must be unpoisoned again), ...
					if(n && n < o) { size_t back = (o + Cfg::pagesize - 1) / Cfg::pagesize * Cfg::pagesize; h.do_realloc((uint32_t)h.live.size() - 1, back, -1); h.check_state(); h.do_realloc((uint32_t)h.live.size() - 1, n, -1); h.check_state(); }
					if(n) { h.do_realloc((uint32_t)h.live.size() - 1, n + 3 * Cfg::sb_size + Cfg::pagesize + 1, -1); h.check_state(); }
					h.do_free((uint32_t)h.live.size() - 1, false); h.check_state();
					bad = false;
				});
				if(bad) build();
			}
			if(E.stop) break;
		}
		return E.finish();
	};
	inst.replay = [](const std::string &) { return 3; };
	return inst;
}

#ifndef SLAB_PART
#define SLAB_PART -1
#endif
// The harness is built as four binaries (SLAB_PART 0..3), each instantiating a subset of the policy
// configurations, so that they compile in parallel.
#define PART_ON(n) (SLAB_PART == -1 || SLAB_PART == (n))
#if PART_ON(0)
#define IN0(x) x
#else
#define IN0(x)
#endif
#if PART_ON(1)
#define IN1(x) x
#else
#define IN1(x)
#endif
#if PART_ON(2)
#define IN2(x) x
#else
#define IN2(x)
#endif
#if PART_ON(3)
#define IN3(x) x
#else
#define IN3(x)
#endif
// Many partial slabs of one class at the same time: NS slabs are filled, one block of each is freed in every possible
// order (the partial-slab tree sees every insertion order), then the class is refilled (the lowest partial slab fills up
// and leaves the tree each time) and emptied again.  All NS! orders.
template<class Cfg>
static Instance many_partial_inst(const std::string &name, int NS) {
	Instance inst; inst.name = name;
	inst.run = [=](const std::vector<CrashInfo> &cr) {
		Enumerator E(name, "C01", cr);
		SlabHarness<Cfg> h(1 << 20, 0, 0, {});
		h.res = &E.res;
		size_t cls = h.max_small, per = h.per_slab[cls];
		std::vector<int> perm(NS); for(int i = 0; i < NS; i++) perm[i] = i;
		do {
			std::string key; for(int x : perm) key += char('0' + x);
			E.eval("free order " + key, "slab.many-partial-slabs", [&] {
				h.reset();
				for(size_t i = 0; i < (size_t)NS * per; i++) h.do_alloc(cls, false, -1);
				h.check_state();
				// slabs in address order
				std::vector<uintptr_t> bases;
				for(auto &b : h.live) { auto *rg = h.region_of(b.p, 1); if(rg && std::find(bases.begin(), bases.end(), rg->base) == bases.end()) bases.push_back(rg->base); }
				std::sort(bases.begin(), bases.end());
				if((int)bases.size() != NS) throw Violation{"C02", "slab:footprint:many-partial", std::to_string(bases.size()) + " slabs mapped for " + std::to_string(NS) + " slabs worth of blocks"};
				for(int k = 0; k < NS; k++) {
					uint32_t idx = 0; for(; idx < h.live.size(); idx++) { auto *rg = h.region_of(h.live[idx].p, 1); if(rg && rg->base == bases[perm[k]]) break; }
					h.do_free(idx, k & 1); h.check_state();
				}
				for(int k = 0; k < NS; k++) { h.do_alloc(cls, false, -1); h.check_state(); }
				while(!h.live.empty()) h.do_free((uint32_t)h.live.size() - 1, false);
				h.check_state();
			});
		} while(std::next_permutation(perm.begin(), perm.end()) && !E.stop);
		return E.finish();
	};
	inst.replay = [](const std::string &) { return 3; };
	return inst;
}

// Steady churn ("steady alloc/free cycles map nothing new"): for every size class, for the request sizes at both ends of the
// class (and 0 for the smallest), and for every way of giving a block back - free(p), deallocate(p, n), realloc(p, 0) -
// more allocate/release cycles than two slabs hold blocks, with one block live at a time.  Whatever a release forgets to put
// back is gone for good, so the class runs out of free objects and the footprint oracle sees the second slab.
template<class Cfg>
static Instance churn_inst(const std::string &name, bool all_classes) {
	Instance inst; inst.name = name;
	inst.run = [=](const std::vector<CrashInfo> &cr) {
		Enumerator E(name, "C02", cr);
		SlabHarness<Cfg> h(1 << 20, 0, 0, {});
		h.res = &E.res;
		size_t prev = 0; bool first = true;
		for(auto &kv : h.per_slab) {
			size_t cls = kv.first, per = kv.second;
			std::vector<size_t> reqs = {cls, prev + 1};
			if(first) reqs.push_back(0);
			prev = cls;
			if(!first && !all_classes && cls != h.max_small) { continue; }
			first = false;
			for(size_t req : reqs) for(int form = 0; form < 3; form++) {
				static const char *fn[] = {"free(p)", "deallocate(p, n)", "realloc(p, 0)"};
				E.eval("class " + std::to_string(cls) + " request " + std::to_string(req) + " x " + std::to_string(2 * per + 3) + " cycles, released by " + fn[form], "slab.churn", [&] {
					h.reset();
					for(size_t c = 0; c < 2 * per + 3; c++) {
						h.do_alloc(req, (c % 7) == 3, -1);
						if(form == 2) h.do_realloc(0, 0, -1); else h.do_free(0, form == 1);
					}
					h.check_state();
					if(PS.regions.size() > 1) throw Violation{"C02", "slab:footprint:churn", std::to_string(PS.regions.size()) + " regions are mapped after " + std::to_string(2 * per + 3) + " allocate/release cycles with one live block"};
				});
			}
		}
		return E.finish();
	};
	inst.replay = [](const std::string &) { return 3; };
	return inst;
}

// Whole slabs of live blocks: for every size class one more block than a slab holds is allocated (the first slab is filled
// to its very last object - the one at the start of the slab, next to the pool's own header - and a second one is opened),
// every block is written in full, then every other block is freed, the gaps are refilled, and everything is freed again.
// Every oracle of the harness runs on the way (blocks disjoint and inside mapped memory, contents, poison state, footprint).
template<class Cfg>
static Instance fill_inst(const std::string &name, size_t max_per_slab) {
	Instance inst; inst.name = name;
	inst.run = [=](const std::vector<CrashInfo> &cr) {
		Enumerator E(name, "C01", cr);
		SlabHarness<Cfg> h(1 << 20, 0, 0, {});
		h.res = &E.res;
		E.default_prop = h.prop();
		size_t prev = 0;
		for(auto &kv : h.per_slab) {
			size_t cls = kv.first, per = kv.second, lo = prev + 1; prev = cls;
			if(per > max_per_slab) continue;
			E.eval("class " + std::to_string(cls) + ": " + std::to_string(per + 1) + " live blocks", "slab.fill-class", [&] {
				h.reset();
				for(size_t i = 0; i <= per; i++) h.do_alloc((i & 1) ? cls : lo, false, -1);
				h.check_state();
				for(size_t i = 0; i + 1 < h.live.size(); i++) h.do_free((uint32_t)i, i & 1);     // (erasing shifts the rest: every other block goes)
				h.check_state();
				while(h.live.size() <= per) h.do_alloc(cls, false, -1);
				h.check_state();
				while(!h.live.empty()) h.do_free((uint32_t)h.live.size() - 1, h.live.size() & 1);
				h.check_state();
			});
		}
		return E.finish();
	};
	inst.replay = [](const std::string &) { return 3; };
	return inst;
}

static const int FIX_DEPTH = 1 << 30;
static std::vector<Instance> instances(const std::string &tier) {
	bool th = tier == "thorough";
	const char *want = getenv("VERIF_PROP");
	bool c04 = want && std::string(want) == "C04";
	bool c03 = want && std::string(want) == "C03";
	g_poison_first = c03;
	bool c02 = want && std::string(want) == "C02";
	bool c01 = want && std::string(want) == "C01";
	if(c02 || c03) g_fail_prop = c02 ? "C02" : "C03";
	if(c01) g_fail_prop = "C01";
	std::vector<Instance> v;
	bool c05 = want && std::string(want) == "C05";
	if(c05) {
		// C05, sequential part: "the policy may itself use the pool" - the policy frees a live block of the pool from inside
		// map(), with map() succeeding or failing; any pool lock still held at that point is a self-deadlock
		g_lock_prop = "C05"; g_fail_prop = "C05";
		IN0(v.push_back(slab_inst<CfgTinyA>("tinyA-L3-policy-frees-inside-map", 3, 0, 1, {8, 1024, 1025}, th ? 6 : 5, true));)
		IN0(v.push_back(slab_inst<CfgTinyA>("tinyA-L4-one-class-policy-frees-inside-map", 4, 0, 1, {1024}, FIX_DEPTH, true));)
		IN1(v.push_back(slab_inst<CfgTinyU>("tinyU-L3-policy-frees-inside-map", 3, 256, 1, {600, 1025}, th ? 6 : 5, true));)
		return v;
	}
	std::vector<size_t> tiny = {0, 8, 9, 600, 1024, 1025, 4097};
	std::vector<size_t> split = {0, 16, 300, 512, 513, 4000};
	std::vector<size_t> odd = {8, 5000, 8192, 8193, 40000};
	std::vector<size_t> def = {1, 4096, 32768, 32769, (1 << 18) + 1};
	std::vector<size_t> pagesb = {8, 200, 256, 257, 1025, 3000};
	int F = c04 ? (th ? 2 : 1) : 0;
	std::string sfx = c04 ? "-fail" + std::to_string(F) : "";
	int D = th ? (c04 ? 6 : 7) : 5;       // depth cap of the full-alphabet runs (with failure variants and 2 failures per history depth 7 does not finish)
	const int FIX = 1 << 30;  // no depth cap: run to fixpoint
	if(!c04) {   // (longest first: the driver starts instances in list order)
		for(int b = 0; b < 3; b++) {
			std::string bs = "-base" + std::to_string(b);
			IN3(v.push_back(sweep_inst<CfgDefA>("sweep-defaultA" + bs, 0, th, b));)
			IN3(v.push_back(sweep_inst<CfgDefU>("sweep-defaultU-skew4096" + bs, 4096, th, b));)
			if(b == 0 || th) { IN2(v.push_back(sweep_inst<CfgBigPgA>("sweep-page16k-A" + bs, 0, th, b));) IN1(v.push_back(sweep_inst<CfgBigPgU>("sweep-page16k-U-skew16384" + bs, 16384, th, b));) }
			IN2(v.push_back(sweep_inst<CfgOdd>("sweep-odd" + bs, 0, th, b));)
			IN2(v.push_back(sweep_inst<CfgPageSb>("sweep-pagesb" + bs, 0, th, b));)
			IN0(v.push_back(sweep_inst<CfgTinyA>("sweep-tinyA" + bs, 0, th, b));)
			IN1(v.push_back(sweep_inst<CfgTinyU>("sweep-tinyU-skew256" + bs, 256, th, b));)
			IN1(v.push_back(sweep_inst<CfgTinyNP>("sweep-tinyNP" + bs, 0, th, b));)
			IN2(v.push_back(sweep_inst<CfgSplit>("sweep-split" + bs, 0, th, b));)
			IN1(v.push_back(sweep_inst<CfgSplitU>("sweep-splitU-skew256" + bs, 256, th, b));)
		}
	}
	if(c02) {   // "realloc frees the old block only when it moved" / "bytes of a live block change only by their owner" also across failing map() calls
		IN0(v.push_back(slab_inst<CfgTinyA>("tinyA-L3-contents-after-map-failure", 3, 0, 1, tiny, th ? 5 : 4));)
		IN2(v.push_back(slab_inst<CfgOdd>("odd-L2-contents-after-map-failure", 2, 0, 1, odd, th ? 4 : 3));)
	}
	if(c04) {   // map() fails while the policy, inside that very call, frees a block of the class being allocated (C05 allows the policy to use the pool)
		IN0(v.push_back(slab_inst<CfgTinyA>("tinyA-L3-policy-frees-inside-failing-map", 3, 0, th ? 2 : 1, {8, 1024, 1025}, th ? 6 : 5, true));)
		IN0(v.push_back(slab_inst<CfgTinyA>("tinyA-L4-one-class-policy-frees-inside-failing-map", 4, 0, 1, {1024}, FIX_DEPTH, true));)
		IN2(v.push_back(slab_inst<CfgOdd>("odd-L2-policy-frees-inside-failing-map", 2, 0, 1, {8, 8192, 8193}, th ? 5 : 4, true));)
	}
	if(c01) {   // live blocks stay disjoint and inside mapped memory also when map() fails (a failed realloc must leave its source live)
		IN0(v.push_back(slab_inst<CfgTinyA>("tinyA-L3-validity-after-map-failure", 3, 0, 1, tiny, th ? 5 : 4));)
		IN2(v.push_back(slab_inst<CfgOdd>("odd-L2-validity-after-map-failure", 2, 0, 1, odd, th ? 4 : 3));)
	}
	if(c03) {   // the poison protocol must also hold across failing map() calls
		IN0(v.push_back(slab_inst<CfgTinyA>("tinyA-L3-poison-after-map-failure", 3, 0, 1, tiny, th ? 5 : 4));)
		IN1(v.push_back(slab_inst<CfgTinyU>("tinyU-skew256-L3-poison-after-map-failure", 3, 256, 1, tiny, th ? 5 : 4));)
		IN2(v.push_back(slab_inst<CfgOdd>("odd-L2-poison-after-map-failure", 2, 0, 1, odd, th ? 4 : 3));)
	}
	// fixpoint runs over small alphabets: histories of every length
	IN0(v.push_back(slab_inst<CfgTinyA>("tinyA-fix-8-1024-L3" + sfx, 3, 0, F, {8, 1024}, FIX));)
	IN0(v.push_back(slab_inst<CfgTinyA>("tinyA-fix-1024-1025-4097-L2" + sfx, 2, 0, F, {1024, 1025, 4097}, FIX));)
	IN0(v.push_back(slab_inst<CfgTinyA>("tinyA-fix-1024-L5" + sfx, 5, 0, F, {1024}, FIX));)
	IN1(v.push_back(slab_inst<CfgTinyU>("tinyU-fix-600-1025-L2-skew256" + sfx, 2, 256, F, {600, 1025}, FIX));)
	IN2(v.push_back(slab_inst<CfgSplit>("split-fix-16-512-L2" + sfx, 2, 0, F, {16, 512, 513}, FIX));)
	IN2(v.push_back(slab_inst<CfgOdd>("odd-fix-8192-L3" + sfx, 3, 0, F, {8192}, FIX));)
	if(th) {
		IN0(v.push_back(slab_inst<CfgTinyA>("tinyA-fix-0-9-1024-1025-L2" + sfx, 2, 0, F, {0, 9, 1024, 1025}, FIX));)
		IN0(v.push_back(slab_inst<CfgTinyA>("tinyA-fix-8-1024-1025-L3" + sfx, 3, 0, F, {8, 1024, 1025}, FIX));)
		if(!c04) { IN0(v.push_back(slab_inst<CfgTinyA>("tinyA-fix-1024-1025-4097-L3" + sfx, 3, 0, F, {1024, 1025, 4097}, FIX));) }   // with 2 failures per history this fixpoint does not close in the budget
		IN2(v.push_back(slab_inst<CfgSplit>("split-fix-16-300-513-L2" + sfx, 2, 0, F, {16, 300, 513}, FIX));)
		IN2(v.push_back(slab_inst<CfgOdd>("odd-fix-8-8192-8193-L2" + sfx, 2, 0, F, {8, 8192, 8193}, FIX));)
	}
	if(!c04) { IN0(v.push_back(fill_inst<CfgTinyA>("fill-tinyA", 1 << 20));) IN1(v.push_back(fill_inst<CfgTinyU>("fill-tinyU", 1 << 20));) IN1(v.push_back(fill_inst<CfgTinyNP>("fill-tinyNP", 1 << 20));) IN2(v.push_back(fill_inst<CfgSplit>("fill-split", 1 << 20));) IN3(v.push_back(fill_inst<CfgDefA>("fill-defaultA", th ? 5000 : 1100));) }
	if(!c04) { IN0(v.push_back(churn_inst<CfgTinyA>("churn-tinyA", true));) IN1(v.push_back(churn_inst<CfgTinyU>("churn-tinyU", true));) IN3(v.push_back(churn_inst<CfgDefA>("churn-defaultA", th));) }
	if(!c04) { IN0(v.push_back(many_partial_inst<CfgTinyA>("tinyA-six-partial-slabs-all-free-orders", 6));) if(th) { IN0(v.push_back(many_partial_inst<CfgTinyA>("tinyA-seven-partial-slabs-all-free-orders", 7));) } }
	// the same calls through frg::slab_allocator
	IN0(v.push_back(slab_inst<CfgTinyA>("tinyA-L3-through-slab_allocator" + sfx, 3, 0, F, {0, 9, 1024, 1025}, th ? 5 : 4, false, true));)
	// depth-capped runs over the full size alphabets
	IN0(v.push_back(slab_inst<CfgTinyA>("tinyA-L3" + sfx, 3, 0, F, tiny, D));)
	IN0(v.push_back(slab_inst<CfgTinyA>("tinyA-L4" + sfx, 4, 0, F, tiny, D));)
	IN1(v.push_back(slab_inst<CfgTinyU>("tinyU-skew0" + sfx, 3, 0, F, tiny, D));)
	IN1(v.push_back(slab_inst<CfgTinyU>("tinyU-skew256" + sfx, 3, 256, F, tiny, D));)
	IN1(v.push_back(slab_inst<CfgTinyU>("tinyU-skew3840" + sfx, 3, 3840, F, tiny, D));)
	IN1(v.push_back(slab_inst<CfgTinyNP>("tinyNP" + sfx, 3, 0, F, tiny, D));)
	IN2(v.push_back(slab_inst<CfgSplit>("split" + sfx, 3, 0, F, split, D));)
	IN1(v.push_back(slab_inst<CfgSplitU>("splitU-skew256" + sfx, 3, 256, F, split, D));)
	IN2(v.push_back(slab_inst<CfgOdd>("odd" + sfx, 3, 0, F, odd, D - 1));)
	IN2(v.push_back(slab_inst<CfgPageSb>("pagesb" + sfx, 3, 0, F, pagesb, D));)
	IN3(v.push_back(slab_inst<CfgDefA>("defaultA" + sfx, 2, 0, F, def, D - 2));)
	IN3(v.push_back(slab_inst<CfgDefU>("defaultU" + sfx, 2, 4096, F, def, D - 2));)
	if(const char *t = getenv("VERIF_SLAB_TEST")) {   // ad-hoc sizing experiments: "L:depth:size,size,..."
		int l = atoi(t); const char *q = strchr(t, ':'); int depth = atoi(q + 1); q = strchr(q + 1, ':');
		std::vector<size_t> sz;
		while(q && *q) { sz.push_back(strtoul(q + 1, (char **)&q, 10)); }
		IN0(v.push_back(slab_inst<CfgTinyA>("testA", l, 0, F, sz, depth));)
		IN1(v.push_back(slab_inst<CfgTinyU>("testU", l, 256, F, sz, depth));)
		IN2(v.push_back(slab_inst<CfgOdd>("testOdd", l, 0, F, sz, depth));)
		IN3(v.push_back(slab_inst<CfgDefA>("testDef", l, 0, F, sz, depth));)
		IN2(v.push_back(slab_inst<CfgSplit>("testSplit", l, 0, F, sz, depth));)
	}

	return v;
}
int main(int argc, char **argv) { return harness_main(argc, argv, instances); }
