// C18: bitset<N> vs std::bitset<N>, array vs std::array, mt19937 vs std::mt19937, pcg_basic32 vs the
// published reference, insertion_sort on all small inputs.
#include "../engine/enumerate.hpp"
#include <frg/bitset.hpp>
#include <frg/array.hpp>
#include <frg/random.hpp>
#include <frg/algorithm.hpp>
#include <bitset>
#include <array>
#include <random>
#include <algorithm>
#include <numeric>

using namespace verif;

#if VERIF_ASAN
#define APOISON(p, n) __asan_poison_memory_region((p), (n))
#else
#define APOISON(p, n) ((void)0)
#endif

// ------------------------------------------------------------------------------------------ bitset
template<size_t N>
struct BitsetTest {
	using B = frg::bitset<N>;
	using R = std::bitset<N>;
	struct Guarded { uint64_t before[8]; unsigned char obj[sizeof(B)]; uint64_t after[8]; };
	Guarded *g;
	Enumerator &E;
	uint64_t cases = 0;
	BitsetTest(Enumerator &e) : E(e) {
		g = (Guarded *)malloc(sizeof(Guarded) * 3);
		for(int k = 0; k < 3; k++) { APOISON(g[k].before, sizeof g[k].before); APOISON(g[k].after, sizeof g[k].after); }
	}
	~BitsetTest() { free(g); }
	// an object with garbage in it before construction: uninitialised words show up
	B &raw(int k) { memset(g[k].obj, 0xCD, sizeof(B)); return *reinterpret_cast<B *>(g[k].obj); }
	B &from(const R &r, int k = 0) { B *b = new(&raw(k)) B(); for(size_t i = 0; i < N; i++) if(r[i]) b->set(i); return *b; }
	static std::string hex(const R &r) { std::string s; for(size_t i = N; i-- > 0;) s.push_back(r[i] ? '1' : '0'); return s; }
	void same(const B &b, const R &r, const char *op, const std::string &ctx) {
		cases++;
		for(size_t i = 0; i < N; i++) if(b.test(i) != r[i] || static_cast<const B &>(b)[i] != r[i]) throw Violation{"C18", std::string("bitset:") + op + ":bits", "bitset<" + std::to_string(N) + "> " + op + " " + ctx + ": bit " + std::to_string(i) + " differs from std::bitset"};
		if(b.count() != r.count()) throw Violation{"C18", std::string("bitset:") + op + ":count", "bitset<" + std::to_string(N) + "> " + op + " " + ctx + ": count() = " + std::to_string(b.count()) + " but " + std::to_string(r.count()) + " bits are set below N (bits at or beyond N changed)"};
		if(b.any() != r.any() || b.all() != r.all() || b.none() != r.none()) throw Violation{"C18", std::string("bitset:") + op + ":any-all-none", "bitset<" + std::to_string(N) + "> " + op + " " + ctx + ": any/all/none differ"};
		B &fresh = from(r, 1);
		if(!(b == fresh) || !(fresh == b)) throw Violation{"C18", std::string("bitset:") + op + ":equality", "bitset<" + std::to_string(N) + "> " + op + " " + ctx + ": not == to a freshly built equal value (stray bits)"};
		if(b.size() != N) throw Violation{"C18", "bitset:size", "size() wrong"};
	}
	std::vector<R> domain() {
		std::vector<R> v;
		if(N <= 10) { for(unsigned long x = 0; x < (1ul << N); x++) v.push_back(R(x)); return v; }
		R all; all.set();
		v.push_back(R()); v.push_back(all);
		for(size_t i = 0; i < N; i++) { R r; r.set(i); v.push_back(r); }
		for(size_t i = 1; i < N; i += (N > 70 ? 7 : 3)) { R lo, hi; for(size_t j = 0; j < i; j++) lo.set(j); for(size_t j = i; j < N; j++) hi.set(j); v.push_back(lo); v.push_back(hi); }
		for(size_t w : {63u, 64u, 65u, 127u, 128u, 129u, 191u, 192u}) if(w < N) { R lo; for(size_t j = 0; j < w; j++) lo.set(j); v.push_back(lo); v.push_back(~lo); }
		R alt; for(size_t j = 0; j < N; j += 2) alt.set(j); v.push_back(alt); v.push_back(~alt);
		R a3; for(size_t j = 0; j < N; j += 3) a3.set(j); v.push_back(a3);
		return v;
	}
	void run(bool thorough) {
		auto dom = domain();
		std::string NS = "bitset<" + std::to_string(N) + ">";
		// construction from integers
		std::vector<unsigned long long> ints = {0, 1, 2, 3, ~0ull, ~0ull >> 1, 0x5555555555555555ull, 0xAAAAAAAAAAAAAAAAull, 0x8000000000000000ull, 0x00000000FFFFFFFFull, 0xFFFFFFFF00000000ull};
		for(int k = 0; k < 64; k += 5) { ints.push_back(1ull << k); ints.push_back((1ull << k) - 1); }
		if(N <= 10) for(unsigned long long x = 0; x < (4ull << N); x++) ints.push_back(x);
		for(auto x : ints) E.eval(NS + " ctor(" + std::to_string(x) + ")", "bitset.ctor", [&] {
			B *b = new(&raw(0)) B(x);
			same(*b, R(x), "ctor(integer)", std::to_string(x));
		});
		E.eval(NS + " default ctor", "bitset.ctor", [&] { B *b = new(&raw(0)) B(); same(*b, R(), "ctor()", ""); });
		size_t maxshift = N + 70;
		for(auto &r : dom) E.eval(NS + " v=" + hex(r), "bitset.ops", [&] {
			std::string ctx = "v=" + hex(r);
			same(from(r), r, "build", ctx);
			// single-bit operations
			for(size_t i = 0; i < N; i++) {
				// large N: single-bit operations at every index within 2 of a word boundary or of the ends
				if(N > 66 && !((i % 64) <= 1 || (i % 64) >= 62 || i + 2 >= N)) continue;
				std::string ci = ctx + " i=" + std::to_string(i);
				{ B &b = from(r); R x = r; b.set(i); x.set(i); same(b, x, "set(i)", ci); }
				{ B &b = from(r); R x = r; b.set(i, false); x.set(i, false); same(b, x, "set(i,false)", ci); }
				{ B &b = from(r); R x = r; b.reset(i); x.reset(i); same(b, x, "reset(i)", ci); }
				{ B &b = from(r); R x = r; b.flip(i); x.flip(i); same(b, x, "flip(i)", ci); }
				{ B &b = from(r); R x = r; b[i] = true; x[i] = true; same(b, x, "ref=true", ci); }
				{ B &b = from(r); R x = r; b[i] = false; x[i] = false; same(b, x, "ref=false", ci); }
				{ B &b = from(r); R x = r; b[i].flip(); x[i].flip(); same(b, x, "ref.flip()", ci); }
				{ B &b = from(r); bool got = ~b[i]; if(got != !r[i]) throw Violation{"C18", "bitset:~ref", NS + " ~ref " + ci + " is not the complement of the bit"}; cases++; }
				{ B &b = from(r); if(bool(b[i]) != r[i]) throw Violation{"C18", "bitset:ref-bool", NS + " bool(ref) wrong " + ci}; cases++; }
				for(size_t j : {size_t(0), N - 1, (i + 1) % N}) { B &b = from(r); R x = r; b[i] = b[j]; x[i] = x[j]; same(b, x, "ref=ref", ci + " j=" + std::to_string(j)); }
				// the source reference may belong to another bitset (here: the complement, so that every bit differs)
				for(size_t j : {size_t(0), N - 1, (i + 1) % N, i}) { B &b = from(r); R x = r, y = ~r; B &o = from(y, 2); b[i] = o[j]; x[i] = y[j]; same(b, x, "ref=ref(other bitset)", ci + " j=" + std::to_string(j)); same(o, y, "ref=ref(other bitset):source", ci); }
			}
			{ B &b = from(r); R x = r; b.set(); x.set(); same(b, x, "set()", ctx); }
			{ B &b = from(r); R x = r; b.reset(); x.reset(); same(b, x, "reset()", ctx); }
			{ B &b = from(r); R x = r; b.flip(); x.flip(); same(b, x, "flip()", ctx); }
			{ B &b = from(r); B c = ~b; same(c, ~r, "operator~", ctx); same(b, r, "operator~(source)", ctx); }
			for(size_t sh = 0; sh <= maxshift; sh++) {
				std::string cs = ctx + " shift=" + std::to_string(sh);
				R l = sh < N ? (r << sh) : R(), rr = sh < N ? (r >> sh) : R();
				{ B &b = from(r); b <<= sh; same(b, l, "<<=", cs); }
				{ B &b = from(r); b >>= sh; same(b, rr, ">>=", cs); }
				{ B &b = from(r); B c = b << sh; same(c, l, "<<", cs); B d = b >> sh; same(d, rr, ">>", cs); same(b, r, "shift(source)", cs); }
			}
		});
		// binary operations: every operand pair of the domain (N <= 8) or the boundary patterns
		std::vector<R> ops2 = dom;
		if(N > 8 && N <= 10 && !thorough) { ops2.clear(); for(size_t i = 0; i < dom.size(); i += 7) ops2.push_back(dom[i]); }
		for(auto &r : dom) E.eval(NS + " binary v=" + hex(r), "bitset.binary", [&] {
			for(auto &w : ops2) {
				std::string ctx = "v=" + hex(r) + " w=" + hex(w);
				B wb; for(size_t i = 0; i < N; i++) if(w[i]) wb.set(i);
				{ B &b = from(r); b &= wb; same(b, r & w, "&=", ctx); }
				{ B &b = from(r); b |= wb; same(b, r | w, "|=", ctx); }
				{ B &b = from(r); b ^= wb; same(b, r ^ w, "^=", ctx); }
				{ B &b = from(r); B c = b & wb; same(c, r & w, "&", ctx); B d = b | wb; same(d, r | w, "|", ctx); B e = b ^ wb; same(e, r ^ w, "^", ctx);
				  if((b == wb) != (r == w)) throw Violation{"C18", "bitset:==", NS + " operator== wrong " + ctx}; cases++; }
			}
		});
		// depth-2 sequences (larger N): op1 then op2
		if(N > 10) for(auto &r : dom) E.eval(NS + " seq2 v=" + hex(r), "bitset.seq2", [&] {
			std::vector<size_t> shs = {1, 63, 64, 65, N - 1, N, N + 1};
			for(size_t s1 : shs) for(size_t s2 : shs) {
				std::string ctx = "v=" + hex(r) + " <<" + std::to_string(s1) + " >>" + std::to_string(s2);
				R x = s1 < N ? (r << s1) : R(); x = s2 < N ? (x >> s2) : R();
				{ B &b = from(r); b <<= s1; b >>= s2; same(b, x, "<<=;>>=", ctx); }
				R y = s1 < N ? (r >> s1) : R(); y = s2 < N ? (y << s2) : R();
				{ B &b = from(r); b >>= s1; b <<= s2; same(b, y, ">>=;<<=", ctx); }
				R z = ~r; z = s1 < N ? (z << s1) : R();
				{ B &b = from(r); b.flip(); b <<= s1; same(b, z, "flip;<<=", ctx); }
			}
		});
		E.res.counters["bitset_cases"] += cases;
		E.res.evaluations += cases; E.res.distinct += cases;   // every (N, value, operation, argument) case is distinct
	}
};
template<size_t... Ns> static void bitsets(Enumerator &E, bool th, std::index_sequence<Ns...>) { (BitsetTest<Ns>(E).run(th), ...); }

// ------------------------------------------------------------------------------------------ array
template<size_t N> static void array_test(Enumerator &E) {
	E.eval("array<int," + std::to_string(N) + ">", "array", [&] {
		for(int base = -1; base <= 3; base++) {
			struct Wrap { int pre[4]; frg::array<int, N> a; int post[4]; };
			Wrap *w = (Wrap *)malloc(sizeof(Wrap)); for(int k = 0; k < 4; k++) { w->pre[k] = 0x7777; w->post[k] = 0x7777; }
			std::array<int, N> s;
			for(size_t i = 0; i < N; i++) { w->a[i] = base + (int)i * 3; s[i] = base + (int)i * 3; }
			APOISON(w->pre, sizeof w->pre); APOISON(w->post, sizeof w->post);
			auto &a = w->a; const auto &ca = a;
			EXPECT(a.front() == s.front() && &a.front() == &a[0] && ca.front() == s.front(), "C18", "array:front", "front() is not the first element");
			EXPECT(&a.back() == &a[N - 1] && a.back() == s.back() && &ca.back() == &a[N - 1], "C18", "array:back", "back() is not the last element (N=" + std::to_string(N) + ")");
			size_t i = 0; for(auto it = a.begin(); it != a.end(); ++it, ++i) EXPECT(*it == s[i], "C18", "array:iteration", "iteration differs");
			EXPECT(i == N && a.size() == N && a.max_size() == N && !a.empty() && a.data() == &a[0] && ca.cbegin() == ca.begin() && ca.cend() == ca.end(), "C18", "array:size", "size/data/cbegin wrong");
			frg::array<int, N> b = a; EXPECT(a == b, "C18", "array:==", "copy not equal");
			b[N - 1] += 1; EXPECT(!(a == b), "C18", "array:==", "different arrays compare equal");
			frg::array<int, N> c = a; using std::swap; swap(b, c);
			EXPECT(b == a && c[N - 1] == a[N - 1] + 1, "C18", "array:swap", "swap wrong");
			EXPECT(frg::get<0>(a) == s[0] && frg::get<N - 1>(ca) == s[N - 1], "C18", "array:get", "get<I> wrong");
			{ int &&r = frg::get<0>(std::move(a)); const int &&cr = frg::get<N - 1>(std::move(ca)); EXPECT(&r == &a[0] && &cr == &ca[N - 1] && ca.data() == &a[0], "C18", "array:get", "get<I> of an rvalue / const data() designate other elements"); }
			auto cc = frg::array_concat<int>(a, b, frg::array<int, 2>{41, 42});
			static_assert(std::tuple_size_v<decltype(cc)> == 2 * N + 2);
			for(size_t k = 0; k < N; k++) EXPECT(cc[k] == a[k] && cc[N + k] == b[k], "C18", "array:concat", "array_concat order wrong");
			EXPECT(cc[2 * N] == 41 && cc[2 * N + 1] == 42, "C18", "array:concat", "array_concat tail wrong");
			free(w);
		}
	});
}

// comparison for element types whose == is not bytewise (signed zeros, NaN, coarser keys): every pair of arrays of
// length 1..3 over the value set, against std::array
struct CoarseEl { int id; int tag; bool operator==(const CoarseEl &o) const { return id == o.id; } };
template<class T, size_t N, class Mk> static void array_eq_pairs(const char *what, size_t nvals, Mk mk) {
	size_t total = 1; for(size_t k = 0; k < N; k++) total *= nvals;
	for(size_t x = 0; x < total; x++) for(size_t y = 0; y < total; y++) {
		frg::array<T, N> fa, fb; std::array<T, N> sa, sb;
		size_t xx = x, yy = y;
		for(size_t k = 0; k < N; k++) { fa[k] = sa[k] = mk(xx % nvals, 0); fb[k] = sb[k] = mk(yy % nvals, 1); xx /= nvals; yy /= nvals; }
		bool want = sa == sb;
		EXPECT((fa == fb) == want && (fa != fb) == !want, "C18", std::string("array:==:") + what, std::string("array<") + what + "," + std::to_string(N) + "> comparison disagrees with std::array");
	}
}
static void array_eq_test(Enumerator &E) {
	E.eval("array comparison, non-bytewise element equality", "array", [&] {
		const double dv[] = {0.0, -0.0, __builtin_nan(""), 1.5};
		const float fv[] = {0.0f, -0.0f, __builtin_nanf(""), 2.5f};
		array_eq_pairs<double, 1>("double", 4, [&](size_t i, int) { return dv[i]; });
		array_eq_pairs<double, 2>("double", 4, [&](size_t i, int) { return dv[i]; });
		array_eq_pairs<double, 3>("double", 4, [&](size_t i, int) { return dv[i]; });
		array_eq_pairs<float, 2>("float", 4, [&](size_t i, int) { return fv[i]; });
		array_eq_pairs<long double, 2>("long double", 3, [&](size_t i, int) { return (long double)dv[i]; });
		array_eq_pairs<CoarseEl, 2>("key-with-coarser-equality", 3, [&](size_t i, int side) { return CoarseEl{(int)i, side * 5}; });
	});
}

// ------------------------------------------------------------------------------------------ PRNGs
struct pcg_ref { uint64_t state, inc; };
static uint32_t pcg32_random_r(pcg_ref *rng) {
	uint64_t oldstate = rng->state;
	rng->state = oldstate * 6364136223846793005ULL + rng->inc;
	uint32_t xorshifted = (uint32_t)(((oldstate >> 18u) ^ oldstate) >> 27u);
	uint32_t rot = (uint32_t)(oldstate >> 59u);
	return (xorshifted >> rot) | (xorshifted << ((-rot) & 31));
}
static void pcg32_srandom_r(pcg_ref *rng, uint64_t initstate, uint64_t initseq) {
	rng->state = 0U; rng->inc = (initseq << 1u) | 1u; pcg32_random_r(rng); rng->state += initstate; pcg32_random_r(rng);
}
static uint32_t pcg32_boundedrand_r(pcg_ref *rng, uint32_t bound) {
	uint32_t threshold = -bound % bound;
	for(;;) { uint32_t r = pcg32_random_r(rng); if(r >= threshold) return r % bound; }
}

static InstResult run_prng(const std::vector<CrashInfo> &cr, bool th, int shard, int nshards) {
	Enumerator E("prng-" + std::to_string(shard), "C18", cr);
	std::vector<uint32_t> seeds;
	uint32_t nseeds = th ? 65536 : 4096;
	for(uint32_t s = shard; s < nseeds; s += nshards) seeds.push_back(s);
	if(shard == 0) for(uint32_t s : {5489u, 0x7fffffffu, 0x80000000u, 0xfffffffeu, 0xffffffffu, 0x12345678u, 0x9908b0dfu}) seeds.push_back(s);
	for(uint32_t s : seeds) E.eval("mt19937 seed=" + std::to_string(s), "mt19937", [&] {
		frg::mt19937 a; a.seed(s); std::mt19937 b(s);
		for(int i = 0; i < 1500; i++) { uint32_t x = a(), y = (uint32_t)b(); if(x != y) throw Violation{"C18", "mt19937:stream", "draw " + std::to_string(i) + " differs from std::mt19937 for seed " + std::to_string(s)}; }
		// seed() on an engine that has been used (1500 draws: in the middle of a block of 624) restarts the stream of the new seed
		uint32_t s2 = s * 2654435761u + 1; a.seed(s2); b.seed(s2);
		for(int i = 0; i < 700; i++) { uint32_t x = a(), y = (uint32_t)b(); if(x != y) throw Violation{"C18", "mt19937:reseed", "draw " + std::to_string(i) + " after seed(" + std::to_string(s2) + ") on a used engine differs from std::mt19937"}; }
	});
	if(shard == 0) for(int k : {0, 1, 2, 623, 624, 625, 1247, 1248, 1249}) E.eval("mt19937 reseed after " + std::to_string(k) + " draws", "mt19937", [&] {
		for(uint32_t s0 : {5489u, 0u, 0xffffffffu}) for(uint32_t s1 : {0u, 1u, 5489u, 0x80000000u}) {
			frg::mt19937 a; if(s0 != 5489u) a.seed(s0);
			for(int i = 0; i < k; i++) a();
			a.seed(s1); std::mt19937 b(s1);
			for(int i = 0; i < 1300; i++) if(a() != (uint32_t)b()) throw Violation{"C18", "mt19937:reseed", "draw " + std::to_string(i) + " after re-seeding an engine that had produced " + std::to_string(k) + " values differs from std::mt19937"};
		}
	});
	if(shard == 0) E.eval("mt19937 default", "mt19937", [&] { frg::mt19937 a; std::mt19937 b; for(int i = 0; i < 2000; i++) if(a() != (uint32_t)b()) throw Violation{"C18", "mt19937:default", "default-seeded stream differs"}; });
	std::vector<uint64_t> ps = {0, 1, 42, 54, 0xffffffffull, 0x100000000ull, ~0ull, ~0ull - 1, 0x8000000000000000ull, 0x123456789abcdefull};
	for(uint64_t x = shard; x < (th ? 512u : 128u); x += nshards) ps.push_back(x * 0x9e3779b97f4a7c15ull + x);
	std::vector<uint32_t> bounds = {1, 2, 3, 10, 0x80000000u, 0x80000001u, 0xffffffffu, 6, 1000};
	for(uint64_t seed : ps) for(uint64_t seq : {uint64_t(0), uint64_t(1), uint64_t(54), ~uint64_t(0), uint64_t(1) << 63}) E.eval("pcg seed=" + std::to_string(seed) + " seq=" + std::to_string(seq), "pcg_basic32", [&] {
		frg::pcg_basic32 a(seed, seq); pcg_ref r; pcg32_srandom_r(&r, seed, seq);
		for(int i = 0; i < 64; i++) if(a() != pcg32_random_r(&r)) throw Violation{"C18", "pcg:stream", "pcg_basic32 stream differs from the reference"};
		for(uint32_t b : bounds) for(int i = 0; i < 8; i++) { uint32_t x = a(b), y = pcg32_boundedrand_r(&r, b); if(x != y || x >= b) throw Violation{"C18", "pcg:bounded", "bounded draw differs from the reference or is outside [0,bound)"}; }
		if(seq == 1) { frg::pcg_basic32 d(seed); frg::pcg_basic32 e(seed, 1); for(int i = 0; i < 8; i++) if(d() != e()) throw Violation{"C18", "pcg:default-seq", "default sequence is not 1"}; }
		frg::pcg_basic32 re(1, 1); re.seed(seed, seq); pcg_ref r2; pcg32_srandom_r(&r2, seed, seq);
		for(int i = 0; i < 8; i++) if(re() != pcg32_random_r(&r2)) throw Violation{"C18", "pcg:reseed", "re-seeding does not restart the stream"};
	});
	return E.finish();
}

// ------------------------------------------------------------------------------------------ sort
static InstResult run_sort(const std::vector<CrashInfo> &cr, bool th) {
	Enumerator E("insertion_sort", "C18", cr);
	size_t maxlen = th ? 8 : 7;
	auto check = [&](std::vector<int> in, bool less) {
		struct Wrap { int pre[4]; int a[8]; int post[4]; };
		Wrap *w = (Wrap *)malloc(sizeof(Wrap));
		size_t n = in.size();
		int *base = w->a + (8 - n);   // array ends at the poisoned pad
		for(size_t i = 0; i < n; i++) base[i] = in[i];
		APOISON(w->pre, sizeof w->pre); APOISON(w->post, sizeof w->post); if(n < 8) APOISON(w->a, (8 - n) * sizeof(int));
		if(less) frg::insertion_sort(base, base + n, [](int x, int y) { return x < y; });
		else frg::insertion_sort(base, base + n, [](int x, int y) { return x > y; });
		std::vector<int> out(base, base + n);
		free(w);
		auto a = in, b = out; std::sort(a.begin(), a.end()); std::sort(b.begin(), b.end());
		if(a != b) throw Violation{"C18", "sort:not-permutation", "insertion_sort output is not a permutation of its input"};
		for(size_t i = 0; i < n; i++) for(size_t j = i + 1; j < n; j++) if(less ? out[i] < out[j] : out[i] > out[j]) throw Violation{"C18", "sort:order", "an earlier element still satisfies comp(earlier, later)"};
	};
	for(size_t len = 0; len <= maxlen; len++) E.eval("all arrays over {0,1,2} of length " + std::to_string(len), "insertion_sort", [&] {
		std::vector<int> v(len, 0);
		for(;;) {
			check(v, true); check(v, false); E.res.counters["sort_inputs"] += 2;
			long i = (long)len - 1; while(i >= 0 && ++v[i] == 3) { v[i] = 0; i--; } if(i < 0) break;
		}
	});
	for(size_t len = 1; len <= maxlen; len++) E.eval("all permutations of length " + std::to_string(len), "insertion_sort", [&] {
		std::vector<int> v(len); std::iota(v.begin(), v.end(), 0);
		do { check(v, true); check(v, false); E.res.counters["sort_inputs"] += 2; } while(std::next_permutation(v.begin(), v.end()));
	});
	return E.finish();
}

static std::vector<Instance> instances(const std::string &tier) {
	bool th = tier == "thorough";
	std::vector<Instance> v;
	auto add = [&](const std::string &name, std::function<InstResult(const std::vector<CrashInfo> &)> f) {
		Instance i; i.name = name; i.run = f;
		i.replay = [f](const std::string &) { InstResult r = f({}); for(auto &x : r.violations) printf("REPLAY-VIOLATION property=%s sig=%s: %s [%s]\n", x.prop.c_str(), x.sig.c_str(), x.msg.c_str(), x.history.c_str()); return (int)r.violations.size(); };
		v.push_back(i);
	};
#define BS(name, ...) add(name, [=](const std::vector<CrashInfo> &cr) { Enumerator E(name, "C18", cr); bitsets(E, th, std::index_sequence<__VA_ARGS__>{}); return E.finish(); })
#ifndef C18_PART
#define C18_PART -1
#endif
#define ON(n) (C18_PART == -1 || C18_PART == (n))
	// built as several binaries (C18_PART) so that the template instantiations compile in parallel
#if ON(0)
	BS("bitset-10", 10); BS("bitset-9", 9);
#endif
#if ON(1)
	BS("bitset-8-7", 8, 7); BS("bitset-1-6", 1, 2, 3, 4, 5, 6); BS("bitset-31-33", 31, 32, 33);
#endif
#if ON(2)
	BS("bitset-63-66", 63, 64, 65, 66); BS("bitset-127-130", 127, 128, 129, 130);
#endif
#if ON(3)
	BS("bitset-191-193", 191, 192, 193); BS("bitset-253-256", 253, 256);
#endif
#if ON(4)
	if(th) { BS("bitset-11-12", 11, 12); BS("bitset-257-320", 257, 319, 320); }
	add("array", [=](const std::vector<CrashInfo> &cr) { Enumerator E("array", "C18", cr); array_test<1>(E); array_test<2>(E); array_test<3>(E); array_test<4>(E); array_test<5>(E); array_test<17>(E); array_eq_test(E); return E.finish(); });
	for(int s = 0; s < 4; s++) add("prng-" + std::to_string(s), [=](const std::vector<CrashInfo> &cr) { return run_prng(cr, th, s, 4); });
	add("insertion_sort", [=](const std::vector<CrashInfo> &cr) { return run_sort(cr, th); });
#endif
	return v;
}
int main(int argc, char **argv) { return harness_main(argc, argv, instances); }
