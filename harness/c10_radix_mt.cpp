// C10: rcu_radixtree with one writer and concurrent lock-free readers.  std::atomic inside
// rcu_radixtree.hpp is replaced by verif::atomic, so every atomic load/store of the tree is a
// scheduling point and carries its real memory order (vector clocks / ThreadSanitizer).
#include "../engine/vsched.hpp"
#include <stdint.h>
#include <new>
#include <frg/allocation.hpp>
#include <frg/eternal.hpp>
#include <frg/macros.hpp>
#include <frg/tuple.hpp>
namespace std { template<class T> using verif_atomic = ::verif::atomic<T>; }
#define atomic verif_atomic
#include <frg/rcu_radixtree.hpp>
#undef atomic

using namespace verif;

struct RV {
	uint64_t key, nkey, tkey;
	RV(uint64_t k) : key(k), nkey(~k), tkey(3 * k) { hb_mark("value-" + std::to_string(k)); }
	// a destroyed value is recognisably dead: a reader that is handed one sees inconsistent fields
	~RV() { key = 0xDEADDEADDEADDEADull; nkey = 0; tkey = 1; }
};
struct MallocAlloc {
	void *allocate(size_t n) { return ::malloc(n); }
	void deallocate(void *p, size_t) { ::free(p); }
	void free(void *p) { ::free(p); }
};
using Tree = frg::rcu_radixtree<RV, MallocAlloc>;

struct WOp { bool erase; uint64_t key; };
struct Script { std::vector<WOp> setup, writer; std::vector<std::vector<uint64_t>> readers; };

struct RxMt {
	Script sc;
	alignas(64) unsigned char store[sizeof(Tree)];
	bool alive = false;
	// writer log: per op invocation / return timestamps (number of scheduling points so far)
	struct WLog { bool erase; uint64_t key; int inv = -1, ret = -1; };
	std::vector<WLog> wlog;
	struct FLog { uint64_t key; int inv, ret; bool found; };
	std::vector<FLog> flog[VS_MAX_THREADS];
	std::string sig;
	RxMt(Script s) : sc(std::move(s)) {}
	const char *prop() { return "C10"; }
	Tree &t() { return *reinterpret_cast<Tree *>(store); }
	int nthreads() { return 1 + (int)sc.readers.size(); }
	void setup() {
		if(alive) { t().~Tree(); alive = false; }
		new(store) Tree(MallocAlloc{}); alive = true;
		wlog.clear(); for(auto &f : flog) f.clear();
		for(auto &op : sc.setup) { if(op.erase) t().erase(op.key); else t().insert(op.key, op.key); wlog.push_back({op.erase, op.key, -2, -1}); }
		for(auto &op : sc.writer) wlog.push_back({op.erase, op.key, -1, -1});
	}
	void body(int tid) {
		if(tid == 0) {
			size_t base = sc.setup.size();
			for(size_t i = 0; i < sc.writer.size(); i++) {
				auto &op = sc.writer[i];
#if !VERIF_TSAN
				wlog[base + i].inv = vs_tr.npoints;
#endif
				if(op.erase) t().erase(op.key); else t().insert(op.key, op.key);
#if !VERIF_TSAN
				wlog[base + i].ret = vs_tr.npoints;
#endif
			}
		} else {
			for(uint64_t k : sc.readers[tid - 1]) {
				int inv = vs_tr.npoints;
				RV *p = t().find(k);
				int ret = vs_tr.npoints;
				if(p) {
					if(!hb_before("value-" + std::to_string(k))) vs_fail("C10", "radix:value-not-ordered", "the construction of the value does not happen-before the reader's access (publication is not release/acquire)");
					uint64_t a = p->key, b = p->nkey, c = p->tkey;
					if(a != k || b != ~k || c != 3 * k) vs_fail("C10", "radix:partial-or-foreign-value", "find(" + std::to_string(k) + ") returned a value that is not fully initialised or belongs to another key");
				}
#if !VERIF_TSAN
				flog[tid].push_back({k, inv, ret, p != nullptr});
				// a key that was present before the find began and is not erased during it must be found
				if(!p) {
					int last_ins = -1;
					for(size_t i = 0; i < wlog.size(); i++) {
						auto &w = wlog[i];
						if(w.key != k) continue;
						bool returned_before = w.inv == -2 || (w.ret >= 0 && w.ret < inv);
						if(!w.erase && returned_before) last_ins = (int)i;
					}
					if(last_ins >= 0) {
						bool erased = false;
						for(size_t i = last_ins + 1; i < wlog.size(); i++) { auto &w = wlog[i]; if(w.key == k && w.erase && (w.inv == -2 || (w.inv >= 0 && w.inv <= ret))) erased = true; }
						if(!erased) vs_fail("C10", "radix:present-key-not-found", "find(" + std::to_string(k) + ") returned null although the key was inserted before the call began and is not erased during it");
					}
				}
#else
				(void)inv; (void)ret;
#endif
			}
		}
	}
	void finish() {
		// sequential end state: exactly the keys the writer left present are found
		std::map<uint64_t, bool> present;
		for(auto &w : wlog) present[w.key] = !w.erase;
		for(auto &kv : present) {
			RV *p = t().find(kv.first);
			if(kv.second && (!p || p->key != kv.first)) throw Violation{"C10", "radix:end-state-lost-key", "a key the writer inserted is missing after all threads finished"};
			if(!kv.second && p) throw Violation{"C10", "radix:end-state-erased-key", "an erased key is still found after all threads finished"};
		}
		sig.clear();
		for(int r = 1; r < nthreads(); r++) for(auto &f : flog[r]) sig += f.found ? '1' : '0';
	}
	std::string outcome() { return sig; }
};

static std::vector<Instance> instances(const std::string &tier) {
	bool th = tier == "thorough";
	const uint64_t A = 0x1000000000000000ull, B = 0x2000000000000000ull, C = A + 1, D = A + 0x100, E = A + 0x1000000, F = 0x2000000000000005ull;
	std::vector<Instance> v;
	auto add = [&](const std::string &name, int bound, Script s) { SchedOptions o; o.bound = bound; o.horizon = 6000; v.push_back(sched_instance<RxMt>(name + "-b" + std::to_string(bound), o, s)); };
	int Bq = th ? 3 : 2;
	// empty root -> first leaf -> root split (top nibbles differ) -> second key in a leaf; readers look for both
	add("S1-first-insert-root-split", Bq, Script{{}, {{false, A}, {false, B}}, {{A, B}}});
	add("S2-root-split-second-in-leaf", Bq, Script{{{false, A}}, {{false, B}, {false, C}}, {{A, C}}});
	// split below an existing inner node while a reader descends through it to a present key
	add("S3-split-below-inner", Bq, Script{{{false, A}, {false, B}}, {{false, D}, {false, E}}, {{A, D}}});
	// erase and re-insert in a leaf while a reader looks up a neighbour in the same leaf and the erased key
	add("S4-erase-neighbour", Bq, Script{{{false, A}, {false, C}}, {{true, C}, {false, A + 2}}, {{A, C}}});
	add("S5-erase-reinsert-other-reader", Bq, Script{{{false, A}, {false, C}, {false, B}}, {{true, C}, {false, C}, {false, F}}, {{A, B}}});
	// a leaf whose only key is erased, then a key with another prefix but the same last nibble goes where that leaf hangs
	// (at the root / below an inner node) while a reader that is already inside the leaf looks for the erased key
	add("S8-emptied-leaf-then-other-prefix", Bq, Script{{{false, A}}, {{true, A}, {false, B}}, {{A, B}}});
	add("S9-emptied-leaf-below-inner", Bq, Script{{{false, A}, {false, B}}, {{true, A}, {false, D}}, {{A, D}}});
	// readers that look for keys that are NEVER inserted and differ from a stored key only in a nibble the path to it skips
	// (A and D share an inner node that indexes on nibble 13; nibble 14 is compressed away): "a value stored under exactly
	// the requested key" - or null
	add("S10-absent-keys-in-a-skipped-nibble", Bq, Script{{{false, A}}, {{false, D}, {false, E}}, {{A + 0x10, D + 0xf0, A + 0x20}}});
	// a path without any compression: an inner node at every depth 0..14 above the leaf (16 nodes from the root to the value).
	// Fifteen keys that each share one more nibble with key 0 build it; the writer adds the last two splits while the reader
	// looks for key 0 (present throughout) and for the newly inserted keys
	{
		Script fd; fd.setup.push_back({false, 0});
		for(int sh = 60; sh >= 12; sh -= 4) fd.setup.push_back({false, uint64_t(1) << sh});
		fd.writer = {{false, uint64_t(1) << 8}, {false, uint64_t(1) << 4}};
		fd.readers = {{0, uint64_t(1) << 4, 0}};
		add("S12-full-depth-path", Bq, fd);
	}
	// two readers at once (find() may keep per-tree state between calls: readers must not disturb each other); the keys sit
	// in different leaves and share their last nibble
	add("S13-two-readers-different-leaves", 2, Script{{{false, A}, {false, B}}, {{false, D}}, {{A, B, A}, {B, A, B}}});
	add("S11-absent-keys-while-erasing", Bq, Script{{{false, A}, {false, D}}, {{true, A}, {false, A + 0x30}}, {{A + 0x10, A + 0x30, D + 0x10}}});
	if(th) {
		add("S6-two-readers", 2, Script{{{false, A}}, {{false, B}, {false, D}}, {{A, B}, {D, A}}});
		add("S7-long-writer", 2, Script{{}, {{false, A}, {false, B}, {false, C}, {false, D}, {true, A}}, {{A, D}}});
		add("S1-all", 1000, Script{{}, {{false, A}}, {{A}}});
	}
	return v;
}
int main(int argc, char **argv) { return harness_main(argc, argv, instances); }
