// C13: frg::intrusive_list against two reference sequences; pool of N nodes, two lists; fixpoint.
#include "../engine/seqmc.hpp"
#include <frg/list.hpp>
#include <algorithm>

using namespace verif;

struct LNode {
	frg::default_list_hook<LNode> hook;
	int id;
};
using IList = frg::intrusive_list<LNode, frg::locate_member<LNode, frg::default_list_hook<LNode>, &LNode::hook>>;
static constexpr int MAXN = 8;

struct IlHarness : HarnessBase {
	static constexpr bool has_snapshot = true;
	int n;
	struct World {
		alignas(16) unsigned char lists[2][sizeof(IList)];
		alignas(16) unsigned char nodes[sizeof(LNode) * MAXN];
	} w;
	std::vector<int> ref[2];
	IlHarness(int n_) : n(n_) {}
	const char *prop() const { return wanted_prop() == "C16" ? "C16" : "C13"; }   // C16 runs this harness too: a crash, sanitizer report or assertion then counts for it
	IList &L(int a) { return *reinterpret_cast<IList *>(w.lists[a]); }
	LNode &node(int i) { return reinterpret_cast<LNode *>(w.nodes)[i]; }
	void reset() {
		memset(&w, 0xA5, sizeof w);   // nodes and lists are built in storage that is not all-zero, and default-initialised
		for(int a = 0; a < 2; a++) { new(w.lists[a]) IList; ref[a].clear(); }
		for(int i = 0; i < n; i++) { LNode *p = new(&node(i)) LNode; p->id = i; }
	}
	int where(int i) const { for(int a = 0; a < 2; a++) if(std::find(ref[a].begin(), ref[a].end(), i) != ref[a].end()) return a; return -1; }
	enum { PUSH_FRONT, PUSH_BACK, INSERT, ERASE, POP_FRONT, POP_BACK, CLEAR, SPLICE };
	static uint32_t mk(uint32_t k, uint32_t a, uint32_t i = 0, uint32_t j = 0) { return k | a << 8 | i << 12 | j << 20; }
	void ops(std::vector<uint32_t> &out) {
		for(uint32_t a = 0; a < 2; a++) {
			for(int i = 0; i < n; i++) if(where(i) < 0) {
				// symmetry: only the lowest free node id is inserted
				bool lowest = true; for(int j = 0; j < i; j++) if(where(j) < 0) lowest = false;
				if(!lowest) continue;
				out.push_back(mk(PUSH_FRONT, a, i)); out.push_back(mk(PUSH_BACK, a, i));
				for(int j : ref[a]) out.push_back(mk(INSERT, a, i, j + 1));
				out.push_back(mk(INSERT, a, i, 0));
			}
			for(int j : ref[a]) out.push_back(mk(ERASE, a, j));
			if(!ref[a].empty()) { out.push_back(mk(POP_FRONT, a)); out.push_back(mk(POP_BACK, a)); }
			out.push_back(mk(CLEAR, a));
			out.push_back(mk(SPLICE, a));
		}
	}
	std::string show_class(uint32_t op) {
		static const char *nm[] = {"push_front", "push_back", "insert", "erase", "pop_front", "pop_back", "clear", "splice"};
		return std::string("intrusive_list.") + nm[op & 0xff];
	}
	std::string show(uint32_t op) { char b[96]; snprintf(b, sizeof b, "%s(L%u,n%u,before=%d)", show_class(op).c_str(), (op >> 8) & 0xf, (op >> 12) & 0xff, (int)(op >> 20) - 1); return b; }
	[[noreturn]] void fail(const std::string &sig, const std::string &msg) { throw Violation{"C13", "intrusive_list:" + sig, msg}; }
	void hook_reset(int i) {
		auto &h = node(i).hook;
		if(h.next || h.previous || h.in_list) fail("hook-not-reset", "hook of an erased element is not reset");
	}
	void apply(uint32_t op) {
		uint32_t k = op & 0xff, a = (op >> 8) & 0xf, i = (op >> 12) & 0xff, j = op >> 20;
		auto &r = ref[a];
		switch(k) {
		case PUSH_FRONT: { auto it = L(a).push_front(&node(i)); if(*it != &node(i)) fail("push_front:iterator", "returned iterator does not designate the element"); r.insert(r.begin(), i); break; }
		case PUSH_BACK: { auto it = L(a).push_back(&node(i)); if(*it != &node(i)) fail("push_back:iterator", "returned iterator does not designate the element"); r.push_back(i); break; }
		case INSERT: {
			auto before = j ? L(a).iterator_to(&node(j - 1)) : L(a).end();
			auto it = L(a).insert(before, &node(i));
			if(*it != &node(i)) fail("insert:iterator", "returned iterator does not designate the element");
			if(j) r.insert(std::find(r.begin(), r.end(), (int)j - 1), i); else r.push_back(i);
			break;
		}
		case ERASE: { LNode *e = L(a).erase(L(a).iterator_to(&node(i))); if(e != &node(i)) fail("erase:result", "erase returned a different element"); r.erase(std::find(r.begin(), r.end(), (int)i)); hook_reset(i); break; }
		case POP_FRONT: { LNode *e = L(a).pop_front(); if(e != &node(r.front())) fail("pop_front:result", "pop_front returned the wrong element"); hook_reset(r.front()); r.erase(r.begin()); break; }
		case POP_BACK: { LNode *e = L(a).pop_back(); if(e != &node(r.back())) fail("pop_back:result", "pop_back returned the wrong element"); hook_reset(r.back()); r.pop_back(); break; }
		case CLEAR: { L(a).clear(); for(int x : r) hook_reset(x); r.clear(); break; }
		case SPLICE: { L(a).splice(L(a).end(), L(1 - a)); r.insert(r.end(), ref[1 - a].begin(), ref[1 - a].end()); ref[1 - a].clear(); break; }
		}
	}
	void check_state() {
		for(int a = 0; a < 2; a++) {
			auto &r = ref[a];
			if(L(a).empty() != r.empty()) fail("empty", "empty() differs from the reference");
			if(L(a).front() != (r.empty() ? nullptr : &node(r.front()))) fail("front", "front() differs from the reference");
			if(L(a).back() != (r.empty() ? nullptr : &node(r.back()))) fail("back", "back() differs from the reference");
			std::vector<int> fw; int guard = 0;
			for(auto it = L(a).begin(); it != L(a).end(); ++it) { if(++guard > n + 1) fail("cycle", "forward iteration does not terminate"); fw.push_back((*it)->id); }
			// the same walk with the postfix increment: it++ yields the old position
			{ std::vector<int> pf; size_t g2 = 0; for(auto it = L(a).begin(); it != L(a).end();) { if(++g2 > n + 1) fail("cycle", "postfix iteration does not terminate"); auto old = it++; pf.push_back((*old)->id); if(old == it) fail("postfix-increment", "it++ did not advance"); } if(pf != fw) fail("postfix-increment", "walking with it++ differs from walking with ++it"); }
			if(fw != r) fail("forward", "forward iteration differs from the reference");
			std::vector<int> bw; guard = 0;
			for(LNode *p = L(a).back(); p; p = p->hook.previous) { if(++guard > n + 1) fail("cycle", "backward chain does not terminate"); bw.push_back(p->id); }
			std::reverse(bw.begin(), bw.end());
			if(bw != r) fail("backward", "chain of previous links from back() differs from the reference");
			for(int x : r) { if(!node(x).hook.in_list) fail("in_list", "contained element not flagged in_list"); if(*L(a).iterator_to(&node(x)) != &node(x)) fail("iterator_to", "iterator_to wrong"); }
		}
		for(int i = 0; i < n; i++) if(where(i) < 0) hook_reset(i);
		if(res) res->outcomes.insert("sizes=" + std::to_string(ref[0].size()) + "," + std::to_string(ref[1].size()));
	}
	void canon(std::string &out) {
		out.append((const char *)&w, sizeof w);
		for(int a = 0; a < 2; a++) { out.push_back((char)ref[a].size()); for(int x : ref[a]) out.push_back((char)x); }
	}
	void save(std::string &b) { b.clear(); canon(b); }
	void load(const std::string &b) {
		memcpy(&w, b.data(), sizeof w);
		size_t p = sizeof w;
		for(int a = 0; a < 2; a++) { size_t k = (unsigned char)b[p++]; ref[a].clear(); for(size_t i = 0; i < k; i++) ref[a].push_back((unsigned char)b[p++]); }
	}
};

static std::vector<Instance> mk(const std::string &tier) {
	int n = tier == "thorough" ? 7 : 6;
	return {bfs_instance<IlHarness>("intrusive_list-N" + std::to_string(n), BfsOptions{}, n)};
}
int main(int argc, char **argv) { return harness_main(argc, argv, mk); }
