// C20: the four parsers are total and memory-safe on arbitrary input.
// Every byte string up to length L over each parser's reduced alphabet, in exact-size buffers whose
// last byte is the last mapped byte; long digit runs for every numeric position; ASan + UBSan
// (signed overflow included, non-recoverable), guard pages, canaries around every write target.
// printf: the variadic arguments come from a hand-built SysV va_list whose overflow area is an exact-size
// guarded slot array; the va_list cursor must not advance beyond what the directives consume.
#include "../engine/enumerate.hpp"
#include <frg/printf.hpp>
#include <frg/formatting.hpp>
#include <frg/cmdline.hpp>
#include <frg/string.hpp>
#include <cstdarg>
#include <climits>
#include <array>

using namespace verif;

struct CountSink {
	uint64_t canary1 = 0xC0FFEE1234ull; size_t n = 0; uint64_t canary2 = 0xC0FFEE5678ull;
	struct Flood {};   // a huge (but finite) field width was requested: the case is cut short, not a violation
	void append(char) { n++; if(n > (1u << 22)) throw Flood{}; }
	void append(const char *s) { while(*s++) append(' '); }
	void append(const char *s, size_t k) { (void)s; for(size_t i = 0; i < k; i++) append(' '); }
	bool intact() const { return canary1 == 0xC0FFEE1234ull && canary2 == 0xC0FFEE5678ull; }
};

// ------------------------------------------------------------------------------------------ printf
// A universal argument: its low 32 bits are a small int (16), as a pointer it designates a string that is
// valid both as char* ("S") and as wchar_t* (L"S").
static uint64_t universal_arg() {
	static uint64_t v = 0;
	if(!v) {
		void *p = mmap((void *)0x200000000000ull, 4096, PROT_READ | PROT_WRITE, MAP_PRIVATE | MAP_ANONYMOUS | MAP_FIXED_NOREPLACE, -1, 0);
		if(p != (void *)0x200000000000ull) { fprintf(stderr, "cannot map the universal argument page\n"); abort(); }
		memset(p, 0, 4096);
		((char *)p)[16] = 'S';
		v = 0x200000000010ull;
	}
	return v;
}
struct PAgent {
	CountSink *sink; frg::va_struct *vsp;
	frg::expected<frg::format_error> operator()(char c) { sink->append(c); return frg::success; }
	frg::expected<frg::format_error> operator()(const char *c, size_t n) { sink->append(c, n); return frg::success; }
	frg::expected<frg::format_error> operator()(char t, frg::format_options opts, frg::printf_size_mod szmod) {
		switch(t) {
		case 'c': case 'p': case 's': frg::do_printf_chars(*sink, t, opts, szmod, vsp); break;
		case 'd': case 'i': case 'o': case 'x': case 'X': case 'b': case 'B': case 'u': frg::do_printf_ints(*sink, t, opts, szmod, vsp); break;
		case 'f': case 'F': case 'g': case 'G': case 'e': case 'E': frg::do_printf_floats(*sink, t, opts, szmod, vsp); break;
		default: break;   // not a conversion this agent implements: consumes nothing
		}
		return frg::success;
	}
};
// Reference tokenizer of the directive grammar: how many argument slots may the format consume at most?
struct Need { size_t sequential = 0; size_t maxpos = 0, maxnamed = 0; bool positional = false, mixed = false; size_t pads = 0; bool inexact = false; };
static Need tokenize(const std::string &f) {
	Need n; size_t i = 0;
	auto isd = [](char c) { return c >= '0' && c <= '9'; };
	while(i < f.size()) {
		if(f[i] != '%') { i++; continue; }
		i++;
		if(i >= f.size()) break;
		if(f[i] == '%') { i++; continue; }
		bool pos = false; size_t here = 0;
		for(;;) {
			if(i + 1 < f.size() && isd(f[i]) && f[i + 1] == '$') { pos = true; here = f[i] - '0'; i += 2; n.positional = true; if(here > n.maxnamed) n.maxnamed = here; }
			else if(i < f.size() && strchr("-+ #0'", f[i]) && f[i]) i++;
			else break;
		}
		// a '*' is fetched the moment it is parsed, even if the directive turns out to be incomplete
		size_t stars = 0;
		if(i < f.size() && f[i] == '*') { stars++; n.sequential++; i++; } else while(i < f.size() && isd(f[i])) i++;
		if(i < f.size() && f[i] == '.') { i++; if(i < f.size() && f[i] == '*') { stars++; n.sequential++; i++; } else while(i < f.size() && isd(f[i])) i++; }
		bool ldbl = false;
		if(i < f.size() && f[i] == 'l') { i++; if(i < f.size() && f[i] == 'l') i++; }
		else if(i < f.size() && f[i] == 'L') { ldbl = true; i++; }
		else if(i < f.size() && (f[i] == 'z' || f[i] == 't' || f[i] == 'j')) i++;
		else if(i < f.size() && f[i] == 'h') { i++; if(i < f.size() && f[i] == 'h') i++; }
		if(i >= f.size()) break;
		bool consumes = strchr("diouxXbBcspfFeEgG", f[i]) != nullptr;
		// a floating conversion entitles the callee to one double (8 bytes) or, with L, to one long double (16 bytes after
		// alignment padding); frigg's %e/%g print a placeholder and fetch nothing, which is fewer, not more
		if(strchr("fFeEgG", f[i])) { if(ldbl) { n.sequential++; n.pads++; n.inexact = true; } if(strchr("eEgG", f[i])) n.inexact = true; }
		i++;
		if(pos && here == 0) { n.positional = true; n.mixed = true; n.sequential += (consumes ? 1 : 0); }   // "%0$d": not a valid position; frigg fetches the next argument
		else if(pos) { n.positional = true; if(consumes && here > n.maxpos) n.maxpos = here; if(here > n.maxnamed) n.maxnamed = here; }
		else { n.sequential += (consumes ? 1 : 0); if(n.positional) n.mixed = true; }
		if(pos && stars) n.mixed = true;
	}
	if(n.positional && n.sequential) n.mixed = true;
	return n;
}
static void run_printf_case1(const std::string &f, GuardBuf &gfmt, GuardBuf &gslots, uint64_t fill);
static void run_printf_case(const std::string &f, GuardBuf &gfmt, GuardBuf &gslots) {
	run_printf_case1(f, gfmt, gslots, universal_arg());
	if(f.find('*') == std::string::npos || true) run_printf_case1(f, gfmt, gslots, 0);   // null strings, zero widths/precisions, 0.0
}
static void run_printf_case1(const std::string &f, GuardBuf &gfmt, GuardBuf &gslots, uint64_t fill) {
	Need need = tokenize(f);
	size_t allowed = need.sequential + need.maxnamed + need.pads;   // a directive that names position n entitles the callee to n arguments
	std::vector<uint64_t> slots(allowed, fill);
	uint64_t *area = gslots.place<uint64_t>(slots.data(), slots.size());
	frg::va_struct vs; frg::arg arg_list[NL_ARGMAX + 1]; vs.arg_list = arg_list;
	// frigg caches a positional argument in this array with the type of the directive that fetched it first. A format that
	// uses one position with two types ("%1$*s": int, then char *) is invalid (POSIX: undefined) and re-reads the cache with
	// the wider type; the array is pre-filled with the same universal value so that such a format still sees a valid argument
	// and the enumeration stays deterministic (it used to depend on stale stack contents).
	{ uint64_t *raw = reinterpret_cast<uint64_t *>(arg_list); for(size_t k = 0; k < sizeof arg_list / 8; k++) raw[k] = fill; }
	// x86-64 SysV va_list: all register slots used up, so every va_arg comes from the overflow area
	struct VaTag { unsigned gp_offset, fp_offset; void *overflow_arg_area, *reg_save_area; };
	static_assert(sizeof(VaTag) == sizeof(va_list));
	VaTag *tag = reinterpret_cast<VaTag *>(&vs.args[0]);
	tag->gp_offset = 48; tag->fp_offset = 176; tag->overflow_arg_area = area; tag->reg_save_area = nullptr;
	CountSink sink;
	const char *fmt = gfmt.place_cstr(f);
	bool panicked = false;
	try { auto res = frg::printf_format(PAgent{&sink, &vs}, fmt, &vs); (void)res; }
	catch(const Panic &) { panicked = true; }      // stopping in the assertion hook is a legal outcome
	catch(const CountSink::Flood &) { panicked = true; }
	size_t consumed = ((uint64_t *)tag->overflow_arg_area - area);
	if(!sink.intact()) throw Violation{"C20", "printf:sink-canary", "memory next to the sink was overwritten"};
	if(consumed > allowed) throw Violation{"C20", "printf:va-overrun", "consumed " + std::to_string(consumed) + " variadic slots, the directives account for at most " + std::to_string(allowed)};
	if(!panicked && !need.positional && !need.inexact && consumed != need.sequential) throw Violation{"C20", "printf:va-count", "consumed " + std::to_string(consumed) + " variadic slots, the directives consume " + std::to_string(need.sequential)};
	if(!panicked && need.positional && !need.mixed && !need.inexact && consumed != need.maxpos) throw Violation{"C20", "printf:va-count-positional", "consumed " + std::to_string(consumed) + " variadic slots for a highest position of " + std::to_string(need.maxpos)};
}
static InstResult run_printf(const std::vector<CrashInfo> &cr, size_t L, int shard, int nshards) {
	Enumerator E("printf-parse-" + std::to_string(shard), "C20", cr);
	GuardBuf gfmt, gslots;
	const std::string alpha = "%dscxplhz*.$019-+# a";
	// shard by the first two characters
	size_t idx = 0;
	for_all_strings(alpha, 2, [&](const std::string &pre) {
		if(pre.size() < 2) { if(shard == 0) E.eval("printf " + printable(pre), "printf.parse", [&] { run_printf_case(pre, gfmt, gslots); }); return; }
		if((idx++ % nshards) != (size_t)shard) return;
		for_all_strings(alpha, L - 2, [&](const std::string &rest) {
			std::string f = pre + rest;
			E.eval("printf " + printable(f), "printf.parse", [&] { run_printf_case(f, gfmt, gslots); });
		});
	});
	// second alphabet: the conversions and length modifiers the first one leaves out (floating point, L, j, t, o, u, i, X,
	// b, n, the ' flag), without positions (a positional directive fetches all lower positions with its own type by design)
	{
		const std::string alpha2 = "%fFegLjtouXibn'.*1lh#";
		size_t L2 = L >= 6 ? 5 : 4, idx2 = 0;
		for_all_strings(alpha2, 2, [&](const std::string &pre) {
			if(pre.size() < 2) return;
			if((idx2++ % nshards) != (size_t)shard) return;
			for_all_strings(alpha2, L2 - 2, [&](const std::string &rest) {
				std::string f = pre + rest;
				E.eval("printf " + printable(f), "printf.parse-float-alphabet", [&] { run_printf_case(f, gfmt, gslots); });
			});
		});
	}
	if(shard == 0) {
		// long digit runs at every numeric position (int overflow in the accumulators)
		std::vector<std::string> runs;
		for(size_t len : {9, 10, 11, 12, 19, 20, 21}) for(char dgt : {'1', '9', '2'}) runs.push_back(std::string(len, dgt));
		for(const char *b : {"2147483647", "2147483648", "2147483649", "21474836470", "4294967295", "4294967296", "9223372036854775807", "9223372036854775808", "18446744073709551615", "18446744073709551616"}) runs.push_back(b);
		for(const std::string &run : runs) {
			for(const std::string &f : {"%" + run + "d", "%." + run + "d", "%" + run + "." + run + "x", "%-" + run + "s", "%." + run + "s", "%0" + run + "u", "%" + run + "c", "%" + run + "$d"})
				E.eval("printf " + printable(f), "printf.parse-long-number", [&] { run_printf_case(f, gfmt, gslots); });
		}
	}
	return E.finish();
}

// ------------------------------------------------------------------------------------------ fmt()
template<class... Ts> static void fmt_case(const char *raw, size_t n, Ts... args) {
	CountSink sink;
	try { frg::format(frg::fmt(frg::string_view(raw, n), args...), sink); } catch(const Panic &) { } catch(const CountSink::Flood &) { }
	if(!sink.intact()) throw Violation{"C20", "fmt:sink-canary", "memory next to the sink was overwritten"};
}
static InstResult run_fmt(const std::vector<CrashInfo> &cr, size_t L, int shard, int nshards) {
	Enumerator E("fmt-parse-" + std::to_string(shard), "C20", cr);
	GuardBuf g;
	const std::string alpha = "{}:019xcha";
	size_t idx = 0;
	auto one = [&](const std::string &f) {
		E.eval("fmt " + printable(f), "fmt.parse", [&] {
			const char *raw = g.place(f.data(), f.size());
			fmt_case(raw, f.size());
			fmt_case(raw, f.size(), 42);
			fmt_case(raw, f.size(), -7, (const char *)"s");
			fmt_case(raw, f.size(), 'c', 123456789012345678L);
			fmt_case(raw, f.size(), (char)-1, (char)-128);
		});
	};
	for_all_strings(alpha, 2, [&](const std::string &pre) {
		if(pre.size() < 2) { if(shard == 0) one(pre); return; }
		if((idx++ % nshards) != (size_t)shard) return;
		for_all_strings(alpha, L - 2, [&](const std::string &rest) { one(pre + rest); });
	});
	std::vector<std::string> runs;
	for(size_t len : {9, 10, 11, 12, 19, 20, 21, 25}) for(char dgt : {'1', '9', '2'}) runs.push_back(std::string(len, dgt));
	for(const char *b : {"2147483647", "2147483648", "2147483649", "21474836470", "4294967295", "4294967296", "9223372036854775807", "9223372036854775808", "18446744073709551615", "18446744073709551616"}) runs.push_back(b);
	if(shard == 0) for(const std::string &run : runs) {
		for(const std::string &f : {"{:" + run + "}", "{" + run + "}", "{:0" + run + "x}", "{" + run + ":" + run + "}", "{0:" + run + "d} {1}"}) one(f);
	}
	return E.finish();
}

// ------------------------------------------------------------------------------------------ parse_arguments
struct Targets {
	uint64_t c0 = 0xA1A1A1A1; bool flag_f = false; uint64_t c1 = 0xB2B2B2B2; bool flag_o = false; uint64_t c2 = 0xC3C3C3C3;
	frg::string_view sv; uint64_t c3 = 0xD4D4D4D4; int num = -1; uint64_t c4 = 0xE5E5E5E5; uint32_t unum = 7; uint64_t c5 = 0xF6F6F6F6;
	bool intact() const { return c0 == 0xA1A1A1A1 && c1 == 0xB2B2B2B2 && c2 == 0xC3C3C3C3 && c3 == 0xD4D4D4D4 && c4 == 0xE5E5E5E5 && c5 == 0xF6F6F6F6; }
};
static void cmdline_case(const std::string &line, GuardBuf &g) {
	const char *raw = g.place(line.data(), line.size());
	frg::string_view view(raw, line.size());
	for(int table = 0; table < 6; table++) {
		Targets t;
		try {
			switch(table) {
			case 0: { std::array<frg::option, 2> o{{{"f", frg::store_true(t.flag_f)}, {"fo", frg::store_true(t.flag_o)}}}; frg::parse_arguments(view, o); break; }
			case 1: { std::array<frg::option, 1> o{{{"f", frg::as_string_view(t.sv)}}}; frg::parse_arguments(view, o); break; }
			case 2: { std::array<frg::option, 2> o{{{"o", frg::as_number<int>(t.num)}, {"f", frg::as_number<uint32_t>(t.unum)}}}; frg::parse_arguments(view, o); break; }
			case 3: { std::array<frg::option, 2> o{{{"", frg::store_true(t.flag_f)}, {"", frg::as_string_view(t.sv)}}}; frg::parse_arguments(view, o); break; }
			case 4: { std::array<frg::option, 0> o{}; frg::parse_arguments(view, o); break; }
			case 5: { std::array<frg::option, 3> o{{{"fo", frg::store_false(t.flag_f)}, {"f1", frg::as_number<int>(t.num)}, {"o", frg::as_string_view(t.sv)}}}; frg::parse_arguments(view, o); break; }
			}
		} catch(const Panic &) { }
		if(!t.intact()) throw Violation{"C20", "cmdline:target-canary", "memory next to an option target was overwritten"};
		// a stored view must lie inside the command line
		if(t.sv.size()) {
			if(t.sv.data() < raw || t.sv.data() + t.sv.size() > raw + line.size()) throw Violation{"C20", "cmdline:view-outside", "an option value view lies outside the command line buffer"};
		}
	}
}
static InstResult run_cmdline(const std::vector<CrashInfo> &cr, size_t L, int shard, int nshards) {
	Enumerator E("cmdline-parse-" + std::to_string(shard), "C20", cr);
	GuardBuf g;
	const std::string alpha = " \"=fo19x";
	size_t idx = 0;
	for_all_strings(alpha, 2, [&](const std::string &pre) {
		if(pre.size() < 2) { if(shard == 0) E.eval("cmdline " + printable(pre), "cmdline.parse", [&] { cmdline_case(pre, g); }); return; }
		if((idx++ % nshards) != (size_t)shard) return;
		for_all_strings(alpha, L - 2, [&](const std::string &rest) { std::string f = pre + rest; E.eval("cmdline " + printable(f), "cmdline.parse", [&] { cmdline_case(f, g); }); });
	});
	std::vector<std::string> runs;
	for(size_t len : {9, 10, 11, 12, 19, 20, 21}) for(char dgt : {'1', '9', '2'}) runs.push_back(std::string(len, dgt));
	for(const char *b : {"2147483647", "2147483648", "2147483649", "21474836470", "4294967295", "4294967296", "9223372036854775807", "9223372036854775808", "18446744073709551615", "18446744073709551616"}) runs.push_back(b);
	if(shard == 0) for(const std::string &run : runs) {
		for(const std::string &f : {"o=" + run, "f=" + run + " o=" + run, "\"o=" + run + "\"", "f1=" + run}) E.eval("cmdline " + printable(f), "cmdline.parse-long-number", [&] { cmdline_case(f, g); });
	}
	return E.finish();
}

// ------------------------------------------------------------------------------------------ to_number
template<class T> static void tn(const char *raw, size_t n) { frg::string_view v(raw, n); auto r = v.to_number<T>(); (void)r; }
static InstResult run_tonumber(const std::vector<CrashInfo> &cr, size_t L) {
	Enumerator E("to_number-parse", "C20", cr);
	GuardBuf g;
	auto one = [&](const std::string &s) {
		E.eval("to_number " + printable(s), "to_number.parse", [&] {
			const char *raw = g.place(s.data(), s.size());
			try { tn<int>(raw, s.size()); tn<unsigned>(raw, s.size()); tn<long>(raw, s.size()); tn<uint64_t>(raw, s.size()); tn<int8_t>(raw, s.size()); tn<short>(raw, s.size()); }
			catch(const Panic &) { }
		});
	};
	for_all_strings("019-+ a", L, one);
	for(size_t len = 7; len <= 22; len++) for(char dgt : {'1', '9', '2', '8'}) one(std::string(len, dgt));
	for(const char *s : {"2147483647", "2147483648", "4294967295", "4294967296", "9223372036854775807", "9223372036854775808", "18446744073709551615", "18446744073709551616", "127", "128", "255", "256", "32767", "32768"}) one(s);
	return E.finish();
}

// Floating-point values through a real variadic call: every class of value (signed zero, subnormal, ordinary, the
// largest value the integer part supports and the first one it does not, infinities, NaN) under every flag subset,
// width and precision shape.  Floating conversions are outside C19's byte-for-byte claim; here only totality and
// memory safety are checked (the assertion hook is a legal outcome).
static void float_case(const char *format, ...) {
	va_list args; va_start(args, format);
	frg::va_struct vs; frg::arg arg_list[NL_ARGMAX + 1]; vs.arg_list = arg_list; va_copy(vs.args, args);
	CountSink sink;
	try { auto res = frg::printf_format(PAgent{&sink, &vs}, format, &vs); (void)res; } catch(const Panic &) { } catch(const CountSink::Flood &) { }
	va_end(vs.args); va_end(args);
	if(!sink.intact()) throw Violation{"C20", "printf:sink-canary", "memory next to the sink was overwritten"};
}
static InstResult run_float_values(const std::vector<CrashInfo> &cr) {
	Enumerator E("printf-float-values", "C20", cr);
	GuardBuf g;
	const double vals[] = {0.0, -0.0, 4.9e-324, 1.0, -1.0, 0.5, -0.999999999, 1.2, 123456.789, -98765.4321, 1099511627775.5, 1099511627776.0, -1099511627776.0, 1e19, 1e300, -1e300,
		__builtin_inf(), -__builtin_inf(), __builtin_nan(""), -__builtin_nan("")};
	for(int fb = 0; fb < 64; fb++) for(const char *w : {"", "0", "1", "12", "40"}) for(const char *p : {"", ".", ".0", ".1", ".6", ".20", ".60"}) for(const char *cv : {"f", "F", "lf", "Lf", "LF", "e", "g", "Lg"}) {
		std::string d = "%"; if(fb & 1) d += '-'; if(fb & 2) d += '+'; if(fb & 4) d += ' '; if(fb & 8) d += '#'; if(fb & 16) d += '0'; if(fb & 32) d += '\'';
		d += w; d += p; d += cv; d = "<" + d + ">";
		E.eval("printf " + d, "printf.float-values", [&] {
			const char *fmt = g.place_cstr(d);
			for(double v : vals) { if(cv[0] == 'L') float_case(fmt, (long double)v); else float_case(fmt, v); }
			if(cv[0] == 'L') { float_case(fmt, 1.18973149535723176502e+4932L); float_case(fmt, 3.64519953188247460253e-4951L); }
		});
	}
	return E.finish();
}

// escape_fmt(buffer, size): every byte string of length <= 4 over a class representative of each branch (letter, digit,
// punctuation, backslash, quotes, newline, tab, NUL, control, high-bit) in an exact-size buffer: reads exactly `size`
// bytes, emits printable ASCII only.
struct TextSink { std::string out; void append(char c) { out.push_back(c); } void append(const char *s) { out += s; } };
static InstResult run_escape(const std::vector<CrashInfo> &cr, size_t L) {
	Enumerator E("escape_fmt", "C20", cr);
	GuardBuf g;
	for_all_strings(std::string("a7-\\\"'\n\t\0\x01\xff ", 12), L, [&](const std::string &f) {
		E.eval("escape_fmt " + printable(f), "escape_fmt", [&] {
			const char *raw = g.place(f.data(), f.size());
			TextSink sink;
			frg::format(frg::escape_fmt(raw, f.size()), sink);
			for(unsigned char c : sink.out) if(c < 0x20 || c > 0x7e) throw Violation{"C20", "escape_fmt:unescaped", "escape_fmt emitted a non-printable byte"};
			if(sink.out.size() < f.size()) throw Violation{"C20", "escape_fmt:short", "escape_fmt emitted fewer characters than it was given bytes"};
		});
	});
	return E.finish();
}

// %s / %ls arguments that are NOT NUL-terminated inside their buffer: ISO C 7.21.6.1p8 allows that when the precision
// does not exceed the array.  Every argument length 0..4 x every precision 0..length (literal and *) x width / '-' shapes,
// the argument ending at a PROT_NONE page: nothing behind the precision may be read.
static void unterminated_case(const char *format, ...) {
	va_list args; va_start(args, format);
	frg::va_struct vs; frg::arg arg_list[NL_ARGMAX + 1]; vs.arg_list = arg_list; va_copy(vs.args, args);
	CountSink sink;
	try { auto res = frg::printf_format(PAgent{&sink, &vs}, format, &vs); (void)res; } catch(const Panic &) { } catch(const CountSink::Flood &) { }
	va_end(vs.args); va_end(args);
	if(!sink.intact()) throw Violation{"C20", "printf:sink-canary", "memory next to the sink was overwritten"};
}
static InstResult run_unterminated(const std::vector<CrashInfo> &cr) {
	Enumerator E("printf-unterminated-args", "C20", cr);
	GuardBuf gf, ga;
	for(size_t len = 0; len <= 4; len++) for(size_t prec = 0; prec <= len; prec++) for(int shape = 0; shape < 6; shape++) for(int wide = 0; wide < 2; wide++) {
		std::string d = "%";
		if(shape == 1 || shape == 4) d += "-";
		if(shape >= 1 && shape != 5) d += "7";
		bool star = shape == 3 || shape == 4;
		d += star ? ".*" : "." + std::to_string(prec);
		d += wide ? "ls" : "s";
		d = "[" + d + "]";
		E.eval("printf " + d + " arg-length=" + std::to_string(len) + " precision=" + std::to_string(prec), "printf.unterminated-arg", [&] {
			const char *fmt = gf.place_cstr(d);
			if(!wide) {
				std::string a(len, 'x');
				const char *arg = ga.place(a.data(), a.size());
				if(star) unterminated_case(fmt, (int)prec, arg); else unterminated_case(fmt, arg);
			} else {
				std::vector<wchar_t> a(len, L'y');
				const wchar_t *arg = ga.place<wchar_t>(a.data(), a.size());
				if(star) unterminated_case(fmt, (int)prec, arg); else unterminated_case(fmt, arg);
			}
		});
	}
	return E.finish();
}

// Sequences of two and three directives in one format string, every length modifier in every position: the state the
// parser keeps per directive (flags, width, precision, size modifier) must not leak into the next one.  Every argument is
// the exact object its directive is entitled to: integers and doubles occupy exactly their slots in an argument area that
// ends at a PROT_NONE page, narrow and wide string arguments are exactly-sized terminated buffers that end at such a page
// too.  A directive that reads its argument with a wider type than written (a stale `l`, `ll` or `L`) leaves the area or
// the string; the number of slots consumed must be exactly the sum over the directives.
struct SeqDir { const char *text; int kind; };   // kind: 0 integer slot, 1 narrow string, 2 wide string, 3 double, 4 long double, 5 pointer, 6 char
static InstResult run_directive_sequences(const std::vector<CrashInfo> &cr, bool th) {
	Enumerator E("printf-directive-sequences", "C20", cr);
	static const SeqDir dirs[] = {
		{"%d", 0}, {"%u", 0}, {"%x", 0}, {"%5.3d", 0}, {"%-6i", 0}, {"%#o", 0}, {"%c", 6}, {"%s", 1}, {"%.1s", 1}, {"%4s", 1}, {"%p", 5}, {"%f", 3}, {"%.2f", 3},
		{"%hhd", 0}, {"%hd", 0}, {"%ld", 0}, {"%lld", 0}, {"%zd", 0}, {"%td", 0}, {"%jd", 0}, {"%hhu", 0}, {"%hx", 0}, {"%lu", 0}, {"%llx", 0}, {"%zu", 0}, {"%lo", 0},
		{"%ls", 2}, {"%.1ls", 2}, {"%lf", 3}, {"%Lf", 4}, {"%lc", 6},
	};
	const size_t ND = sizeof dirs / sizeof dirs[0];
	static GuardBuf gfmt, gslots, gnarrow, gwide;
	const char *narrow = gnarrow.place_cstr("ab");
	static const wchar_t wsrc[3] = {L'a', L'b', 0};
	const wchar_t *wide = gwide.place<wchar_t>(wsrc, 3);
	auto run = [&](const std::vector<size_t> &seq) {
		std::string f; std::vector<uint64_t> slots; bool has_ld = false;
		for(size_t k = 0; k < seq.size(); k++) {
			const SeqDir &d = dirs[seq[k]];
			if(k) f += "|";
			f += d.text;
			switch(d.kind) {
			case 0: slots.push_back(0x12c); break;                 // 300: fits every integer type but char
			case 6: slots.push_back('A'); break;
			case 1: slots.push_back((uint64_t)(uintptr_t)narrow); break;
			case 2: slots.push_back((uint64_t)(uintptr_t)wide); break;
			case 5: slots.push_back(0x1234); break;
			case 3: { double x = 1.5; uint64_t b; memcpy(&b, &x, 8); slots.push_back(b); break; }
			case 4: { has_ld = true; if(slots.size() & 1) slots.push_back(0); long double x = 1.5L; uint64_t b[2] = {0, 0}; memcpy(b, &x, sizeof x > 16 ? 16 : sizeof x); slots.push_back(b[0]); slots.push_back(b[1]); break; }
			}
		}
		if(has_ld && (slots.size() & 1)) return;       // (a long double is fetched from a 16-aligned address: keep the area's start aligned, or skip)
		E.eval("printf " + printable(f), "printf.directive-sequence", [&] {
			uint64_t *area = gslots.place<uint64_t>(slots.data(), slots.size());
			frg::va_struct vs; frg::arg arg_list[NL_ARGMAX + 1]; vs.arg_list = arg_list;
			memset((void *)arg_list, 0, sizeof arg_list);
			struct VaTag { unsigned gp_offset, fp_offset; void *overflow_arg_area, *reg_save_area; };
			VaTag *tag = reinterpret_cast<VaTag *>(&vs.args[0]);
			tag->gp_offset = 48; tag->fp_offset = 176; tag->overflow_arg_area = area; tag->reg_save_area = nullptr;
			CountSink sink;
			const char *fmt = gfmt.place_cstr(f);
			bool panicked = false;
			try { auto res = frg::printf_format(PAgent{&sink, &vs}, fmt, &vs); (void)res; }
			catch(const Panic &) { panicked = true; }
			catch(const CountSink::Flood &) { panicked = true; }
			size_t consumed = ((uint64_t *)tag->overflow_arg_area - area);
			if(!sink.intact()) throw Violation{"C20", "printf:sink-canary", "memory next to the sink was overwritten"};
			if(consumed > slots.size()) throw Violation{"C20", "printf:va-overrun", "consumed " + std::to_string(consumed) + " variadic slots, the directives account for " + std::to_string(slots.size())};
			if(!panicked && consumed != slots.size()) throw Violation{"C20", "printf:va-count", "consumed " + std::to_string(consumed) + " variadic slots, the directives consume " + std::to_string(slots.size())};
		});
	};
	for(size_t a = 0; a < ND; a++) run({a});
	for(size_t a = 0; a < ND; a++) for(size_t b = 0; b < ND; b++) run({a, b});
	// triples: modifier-carrying directive in the middle or at either end of plain ones (all triples in the thorough tier)
	for(size_t a = 0; a < ND; a++) for(size_t b = 0; b < ND; b++) for(size_t c = 0; c < ND; c++) {
		if(!th && !((a < 13) + (b < 13) + (c < 13) == 2 && (a % 3 == 0 || a >= 13) && (c % 3 == 1 || c >= 13))) continue;
		run({a, b, c});
	}
	return E.finish();
}

static std::vector<Instance> instances(const std::string &tier) {
	bool th = tier == "thorough";
	std::vector<Instance> v;
	auto add = [&](const std::string &name, std::function<InstResult(const std::vector<CrashInfo> &)> f) {
		Instance i; i.name = name; i.run = f;
		i.replay = [f](const std::string &) { InstResult r = f({}); for(auto &x : r.violations) printf("REPLAY-VIOLATION property=%s sig=%s: %s [%s]\n", x.prop.c_str(), x.sig.c_str(), x.msg.c_str(), x.history.c_str()); return (int)r.violations.size(); };
		v.push_back(i);
	};
	int NP = th ? 64 : 16, NF = th ? 48 : 4, NC = th ? 32 : 4;
	for(int s = 0; s < NP; s++) add("printf-parse-" + std::to_string(s), [=](const std::vector<CrashInfo> &cr) { return run_printf(cr, th ? 6 : 5, s, NP); });
	for(int s = 0; s < NF; s++) add("fmt-parse-" + std::to_string(s), [=](const std::vector<CrashInfo> &cr) { return run_fmt(cr, th ? 8 : 6, s, NF); });
	for(int s = 0; s < NC; s++) add("cmdline-parse-" + std::to_string(s), [=](const std::vector<CrashInfo> &cr) { return run_cmdline(cr, th ? 8 : 7, s, NC); });
	add("printf-float-values", [=](const std::vector<CrashInfo> &cr) { return run_float_values(cr); });
	add("printf-unterminated-args", [=](const std::vector<CrashInfo> &cr) { return run_unterminated(cr); });
	add("printf-directive-sequences", [=](const std::vector<CrashInfo> &cr) { return run_directive_sequences(cr, th); });
	add("escape_fmt", [=](const std::vector<CrashInfo> &cr) { return run_escape(cr, th ? 5 : 4); });
	add("to_number-parse", [=](const std::vector<CrashInfo> &cr) { return run_tonumber(cr, th ? 8 : 6); });
	return v;
}
int main(int argc, char **argv) { return harness_main(argc, argv, instances); }
