// C08: frg::pairing_heap — top() is a maximum, pop/remove take out exactly one element.
// Alphabet: push(i) (not contained), pop(), remove(i) (contained) over N nodes with priorities from
// {0..K-1}; BFS to fixpoint.  Contents are established black-box: a byte snapshot of the heap is
// drained with top()/pop() and restored.
#include "../engine/seqmc.hpp"
#include <frg/pairing_heap.hpp>
#include <frg/intrusive.hpp>
#include <algorithm>

using namespace verif;

static constexpr int MAXN = 8;
struct PNode {
	frg::pairing_heap_hook<PNode> hook;
	int prio;
	int id;
};
struct PCompare {
	bool operator()(const PNode *a, const PNode *b) const { return a->prio < b->prio; }
};
using Heap = frg::pairing_heap<PNode, frg::locate_member<PNode, frg::pairing_heap_hook<PNode>, &PNode::hook>, PCompare>;

struct PhHarness {
	static constexpr bool has_snapshot = true;
	InstResult *res = nullptr;
	int n;
	std::vector<int> prio;
	struct World {
		alignas(16) unsigned char heap[sizeof(Heap)];
		alignas(16) unsigned char nodes[sizeof(PNode) * MAXN];
	} w;
	uint32_t in = 0;

	PhHarness(int n_, std::vector<int> p) : n(n_), prio(std::move(p)) {}
	const char *prop() const { return "C08"; }
	Heap &heap() { return *reinterpret_cast<Heap *>(w.heap); }
	PNode &node(int i) { return reinterpret_cast<PNode *>(w.nodes)[i]; }
	void reset() {
		memset(&w, 0xA5, sizeof w);   // nodes and heap are built in storage that is not all-zero, and default-initialised
		new(w.heap) Heap;
		for(int i = 0; i < n; i++) { PNode *p = new(&node(i)) PNode; p->prio = prio[i]; p->id = i; }
		in = 0;
	}
	void ops(std::vector<uint32_t> &out) {
		for(int i = 0; i < n; i++) if(!(in >> i & 1)) out.push_back(i);
		if(in) out.push_back(0x200);
		for(int i = 0; i < n; i++) if(in >> i & 1) out.push_back(0x100 | i);
	}
	std::string show_class(uint32_t op) { return (op & 0x200) ? "pop" : (op & 0x100) ? "remove" : "push"; }
	std::string show(uint32_t op) {
		char b[48]; int i = op & 0xff;
		if(op & 0x200) return "pop()";
		snprintf(b, sizeof b, "%s(n%d:p%d)", (op & 0x100) ? "remove" : "push", i, prio[i]);
		return b;
	}
	[[noreturn]] void fail(const std::string &sig, const std::string &msg) { throw Violation{"C08", sig, msg}; }
	void hook_reset(int i, const char *what) {
		auto &h = node(i).hook;
		if(h.child || h.backlink || h.sibling) fail(std::string("hook-not-reset:") + what, std::string("hook of n") + std::to_string(i) + " not reset after " + what);
	}
	void apply(uint32_t op) {
		int i = op & 0xff;
		if(op & 0x200) {
			PNode *t = heap().top();
			if(!t) fail("top-null", "top() is null on a non-empty heap");
			int id = t->id;
			if(!(in >> id & 1)) fail("top-not-contained", "top() returned an element that is not contained");
			heap().pop();
			in &= ~(1u << id);
			hook_reset(id, "pop");
		} else if(op & 0x100) {
			heap().remove(&node(i));
			in &= ~(1u << i);
			hook_reset(i, "remove");
		} else {
			heap().push(&node(i));
			in |= 1u << i;
		}
	}
	void check_state() {
		Heap &h = heap();
		if(h.empty() != (in == 0)) fail("empty-mismatch", "empty() disagrees with the reference");
		if(in) {
			PNode *t = h.top();
			if(!t) fail("top-null", "top() null on non-empty heap");
			if(!(in >> t->id & 1)) fail("top-not-contained", "top() not contained");
			for(int i = 0; i < n; i++) if((in >> i & 1) && PCompare()(t, &node(i))) fail("top-not-max", "compare(top, x) holds for a contained x");
		}
		for(int i = 0; i < n; i++) if(!(in >> i & 1)) hook_reset(i, "idle");
		// drain a snapshot
		World saved; memcpy(&saved, &w, sizeof w);
		uint32_t got = 0; int last = 1 << 30; int guard = 0;
		struct Restore { World &w, &s; ~Restore() { memcpy(&w, &s, sizeof w); } } restore{w, saved};
		while(!h.empty()) {
			if(++guard > n + 1) fail("drain-loop", "draining does not terminate");
			PNode *t = h.top();
			if(!t) fail("top-null", "top() null while draining");
			if(got >> t->id & 1) fail("drain-duplicate", "element popped twice while draining");
			if(t->prio > last) fail("drain-order", "priorities increase while draining");
			last = t->prio; got |= 1u << t->id;
			h.pop();
		}
		if(got != in) fail("contents-mismatch", "drained element set differs from reference (lost or extra element)");
		if(res) res->outcomes.insert("size=" + std::to_string(__builtin_popcount(in)));
	}
	void final_check() {}
	void canon(std::string &out) { out.append((const char *)&w, sizeof w); out.append((const char *)&in, 4); }
	void save(std::string &b) { b.clear(); canon(b); }
	void load(const std::string &b) { memcpy(&w, b.data(), sizeof w); memcpy(&in, b.data() + sizeof w, 4); }
};

static std::string keyname(const std::vector<int> &k) { std::string s; for(int x : k) s += char('0' + x); return s; }

static Instance group(const std::string &name, int n, std::vector<std::vector<int>> ks) {
	Instance inst; inst.name = name;
	inst.run = [=](const std::vector<CrashInfo> &cr) {
		InstResult total; total.name = name; total.fixpoint = true;
		for(auto &k : ks) {
			PhHarness h(n, k);
			InstResult r = bfs(h, name + "/" + keyname(k), BfsOptions{}, cr);
			for(auto &v : r.violations) v.instance = name + "/" + keyname(k);
			merge(total, r);
			if(past_deadline()) break;
		}
		return total;
	};
	inst.replay = [](const std::string &) { return 3; };
	return inst;
}

// "After ANY sequence of push, pop and remove": a root (or inner node) with tens of thousands of children, collapsed on a
// kernel-sized stack.  frigg is a freestanding kernel library; pop()/remove() must not need stack proportional to the
// number of children.  Runs on a thread with a 256 KiB stack; a fault there is a crash of this instance.
#include "../engine/enumerate.hpp"
#include <pthread.h>
struct DeepArg { int n; bool via_remove; std::string err; };
static void *deep_body(void *vp) {
	DeepArg &a = *(DeepArg *)vp;
	std::vector<PNode> nodes(a.n + 1);
	Heap h;
	// descending priorities: every new element loses against the root and becomes one more child of it
	for(int i = 0; i < a.n; i++) { nodes[i].prio = a.n - i; nodes[i].id = i; h.push(&nodes[i]); }
	if(a.via_remove) {
		// put a larger element on top, then remove the node that has all the children
		nodes[a.n].prio = a.n + 5; nodes[a.n].id = a.n; h.push(&nodes[a.n]);
		h.remove(&nodes[0]);
		if(h.top() != &nodes[a.n]) { a.err = "top() wrong after removing the node with many children"; return nullptr; }
		h.pop();
	} else {
		if(h.top() != &nodes[0]) { a.err = "top() is not the maximum"; return nullptr; }
		h.pop();
	}
	int expect = a.n - 1, count = 0;
	while(!h.empty()) {
		PNode *t = h.top();
		if(t->prio != expect) { a.err = "pop order wrong: got key " + std::to_string(t->prio) + ", expected " + std::to_string(expect); return nullptr; }
		h.pop(); expect--; count++;
	}
	if(count != a.n - 1) a.err = "element count wrong after the deep collapse";
	return nullptr;
}
static InstResult run_deep(const std::vector<CrashInfo> &cr, bool th) {
	Enumerator E("ph-many-children-small-stack", "C08", cr);
	for(int n : th ? std::vector<int>{1000, 20000, 100000, 400000} : std::vector<int>{1000, 20000, 100000}) for(int via_remove = 0; via_remove < 2; via_remove++)
		E.eval(std::string(via_remove ? "remove" : "pop") + " of a node with " + std::to_string(n - 1) + " children on a 256 KiB stack", "pairing_heap.deep", [&] {
			DeepArg a{n, (bool)via_remove, ""};
			pthread_attr_t at; pthread_attr_init(&at); pthread_attr_setstacksize(&at, 256 << 10);
			pthread_t t; if(pthread_create(&t, &at, deep_body, &a)) abort();
			pthread_join(t, nullptr); pthread_attr_destroy(&at);
			if(!a.err.empty()) throw Violation{"C08", "deep:" + std::string(via_remove ? "remove" : "pop"), a.err};
		});
	return E.finish();
}

static std::vector<Instance> mk(const std::string &tier) {
	bool th = tier == "thorough";
	int N = th ? 7 : 6, K = 3;
	// priority assignments up to monotone renaming are not collapsed: all K^N assignments for N<=5,
	// for N=7 all assignments that are non-decreasing after sorting ids is NOT equivalent (ids matter
	// only through push order, which the BFS permutes) -> use canonical assignments: sorted by id.
	std::vector<std::vector<int>> all;
	std::vector<int> cur(N, 0);
	for(;;) {
		bool sorted = true;
		for(int i = 1; i < N; i++) if(cur[i] < cur[i - 1]) sorted = false;
		if(sorted) all.push_back(cur);
		int i = 0; while(i < N && ++cur[i] == K) cur[i++] = 0;
		if(i == N) break;
	}
	std::vector<Instance> v;
	for(size_t g = 0; g < all.size(); g++) v.push_back(group("ph-N" + std::to_string(N) + "-" + keyname(all[g]), N, {all[g]}));
	{ Instance d; d.name = "ph-many-children-small-stack"; d.run = [=](const std::vector<CrashInfo> &cr) { return run_deep(cr, th); };
	  d.replay = [=](const std::string &) { InstResult r = run_deep({}, th); for(auto &x : r.violations) printf("REPLAY-VIOLATION property=%s sig=%s: %s\n", x.prop.c_str(), x.sig.c_str(), x.msg.c_str()); return (int)r.violations.size(); };
	  v.push_back(d); }
	// thorough: 8 nodes for the balanced multisets (the all-equal ones have tens of millions of states)
	if(th) for(auto k : std::vector<std::vector<int>>{{0, 0, 0, 1, 1, 2, 2, 2}, {0, 0, 1, 1, 1, 2, 2, 2}, {0, 0, 0, 1, 1, 1, 2, 2}}) v.push_back(group("ph-N8-" + keyname(k), 8, {k}));
	return v;
}

int main(int argc, char **argv) {
	if(argc >= 5 && std::string(argv[1]) == "replay") {
		std::string name = argv[3]; size_t sl = name.find('/');
		if(sl == std::string::npos) return 3;
		std::vector<int> keys; for(char c : name.substr(sl + 1)) keys.push_back(c - '0');
		PhHarness h((int)keys.size(), keys); return replay(h, argv[4]) ? 1 : 0;
	}
	return harness_main(argc, argv, mk);
}
