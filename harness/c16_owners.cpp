// C16: unique_ptr / unique_memory / construct+destruct helpers — each object destroyed exactly once,
// each block returned exactly once.  Two slots, BFS to fixpoint.
#include "../engine/seqmc.hpp"
#include "../engine/world.hpp"
#include <frg/unique.hpp>
#include <frg/allocation.hpp>

using namespace verif;
static uint32_t mkop(uint32_t k, uint32_t a, uint32_t v = 0) { return k | a << 8 | v << 12; }

struct UpHarness : HarnessBase {
	using U = frg::unique_ptr<Tracked, TrackAlloc>;
	alignas(16) unsigned char store[2][sizeof(U)];
	bool alive[2] = {false, false};
	struct M { bool on = false; int v = 0; } ref[2];
	int aid[2] = {1, 2};   // which allocator instance each pointer currently carries (it travels with the pointee)
	const char *prop() const { return "C16"; }
	U &s(int a) { return *reinterpret_cast<U *>(store[a]); }
	void reset() { world_reset(); for(int a = 0; a < 2; a++) { memset(store[a], 0xA5, sizeof(U)); new(store[a]) U(TrackAlloc{a + 1}); alive[a] = true; ref[a] = {}; aid[a] = a + 1; } }
	enum { MAKE, ADOPT, MOVE_CONS, MOVE_ASSIGN, RESET_NULL, RESET_NEW, RELEASE, SWAP, MUTATE };
	void ops(std::vector<uint32_t> &out) {
		for(uint32_t a = 0; a < 2; a++) {
			for(uint32_t v = 1; v <= 2; v++) { out.push_back(mkop(MAKE, a, v)); out.push_back(mkop(ADOPT, a, v)); out.push_back(mkop(RESET_NEW, a, v)); }
			out.push_back(mkop(MOVE_CONS, a)); out.push_back(mkop(MOVE_ASSIGN, a)); out.push_back(mkop(RESET_NULL, a));
			if(ref[a].on) { out.push_back(mkop(RELEASE, a)); out.push_back(mkop(MUTATE, a, 2)); }
		}
		out.push_back(mkop(SWAP, 0));
	}
	std::string show_class(uint32_t op) { static const char *nm[] = {"make_unique", "ctor(alloc,ptr)", "move_construct", "move_assign", "reset(null)", "reset(ptr)", "release", "swap", "mutate"}; return std::string("unique_ptr.") + nm[op & 0xff]; }
	std::string show(uint32_t op) { return show_class(op) + "(slot" + std::to_string((op >> 8) & 0xf) + ",v=" + std::to_string(op >> 12) + ")"; }
	Tracked *fresh(int v, int id) { TrackAlloc al{id}; return new(al.allocate(sizeof(Tracked))) Tracked(v); }
	void apply(uint32_t op) {
		uint32_t k = op & 0xff, a = (op >> 8) & 0xf, b = 1 - a; int v = op >> 12;
		switch(k) {
		case MAKE: s(a) = frg::make_unique<Tracked>(TrackAlloc{(int)a + 1}, v); ref[a] = {true, v}; aid[a] = a + 1; break;
		case ADOPT: s(a).~U(); alive[a] = false; new(store[a]) U(TrackAlloc{(int)a + 1}, fresh(v, (int)a + 1)); alive[a] = true; ref[a] = {true, v}; aid[a] = a + 1; break;
		case MOVE_CONS: s(a).~U(); alive[a] = false; new(store[a]) U(std::move(s(b))); alive[a] = true; ref[a] = ref[b]; aid[a] = aid[b]; aid[b] = b + 1;
			// the moved-from pointer is only destroyed and re-created
			s(b).~U(); alive[b] = false; new(store[b]) U(TrackAlloc{(int)b + 1}); alive[b] = true; ref[b] = {}; break;
		case MOVE_ASSIGN: s(a) = std::move(s(b)); ref[a] = ref[b]; aid[a] = aid[b]; aid[b] = b + 1; s(b).~U(); alive[b] = false; new(store[b]) U(TrackAlloc{(int)b + 1}); alive[b] = true; ref[b] = {}; break;
		case RESET_NULL: s(a).reset(nullptr); ref[a] = {}; break;
		case RESET_NEW: s(a).reset(fresh(v, aid[a])); ref[a] = {true, v}; break;
		case RELEASE: { Tracked *p = s(a).release(); if(!p || val(*p) != ref[a].v) throw Violation{"C16", "unique_ptr.release:value", "release() returned the wrong object"}; p->~Tracked(); TrackAlloc{}.free(p); ref[a] = {}; break; }
		case SWAP: { using std::swap; swap(s(0), s(1)); std::swap(ref[0], ref[1]); std::swap(aid[0], aid[1]); break; }
		case MUTATE: *s(a) = Tracked(v); ref[a].v = v; break;
		}
	}
	void check_state() {
		for(int a = 0; a < 2; a++) {
			U &x = s(a);
			if(bool(x) != ref[a].on || (x.get() != nullptr) != ref[a].on) throw Violation{"C16", "unique_ptr:engaged", "null-ness differs from the reference"};
			if(ref[a].on && (val(*x) != ref[a].v || x.operator->() != x.get())) throw Violation{"C16", "unique_ptr:value", "pointee differs from the reference"};
		}
		if(res) res->outcomes.insert(std::string(ref[0].on ? "on" : "off") + "/" + (ref[1].on ? "on" : "off"));
	}
	void final_check() { for(int a = 0; a < 2; a++) if(alive[a]) { s(a).~U(); alive[a] = false; } raise_pending(); world_check_empty("unique_ptr"); }
	void canon(std::string &out) { world_canon(out); GraphCanon g; for(int a = 0; a < 2; a++) if(alive[a]) g.root(store[a], sizeof(U)); g.emit(out); for(int a = 0; a < 2; a++) out += std::string(ref[a].on ? "E" : "n") + std::to_string(ref[a].v) + "@" + std::to_string(aid[a]) + ","; }
};

struct UmHarness : HarnessBase {
	using U = frg::unique_memory<TrackAlloc>;
	alignas(16) unsigned char store[2][sizeof(U)];
	bool alive[2] = {false, false};
	size_t ref[2] = {0, 0}; bool on[2] = {false, false};
	TrackAlloc alloc;
	const char *prop() const { return "C16"; }
	U &s(int a) { return *reinterpret_cast<U *>(store[a]); }
	void reset() { world_reset(); for(int a = 0; a < 2; a++) { memset(store[a], 0xA5, sizeof(U)); new(store[a]) U; alive[a] = true; ref[a] = 0; on[a] = false; } }
	enum { SIZED, DEFAULT, MOVE_CONS, ASSIGN, SWAP, WRITE };
	void ops(std::vector<uint32_t> &out) {
		for(uint32_t a = 0; a < 2; a++) {
			for(uint32_t n : {1u, 8u, 24u}) out.push_back(mkop(SIZED, a, n));
			out.push_back(mkop(DEFAULT, a)); out.push_back(mkop(MOVE_CONS, a)); out.push_back(mkop(ASSIGN, a));
			if(on[a]) out.push_back(mkop(WRITE, a));
		}
		out.push_back(mkop(SWAP, 0));
	}
	std::string show_class(uint32_t op) { static const char *nm[] = {"ctor(alloc,size)", "ctor()", "move_construct", "assign", "swap", "write"}; return std::string("unique_memory.") + nm[op & 0xff]; }
	std::string show(uint32_t op) { return show_class(op) + "(slot" + std::to_string((op >> 8) & 0xf) + ",n=" + std::to_string(op >> 12) + ")"; }
	void apply(uint32_t op) {
		uint32_t k = op & 0xff, a = (op >> 8) & 0xf, b = 1 - a; size_t n = op >> 12;
		switch(k) {
		case SIZED: s(a).~U(); alive[a] = false; new(store[a]) U(alloc, n); alive[a] = true; ref[a] = n; on[a] = true; break;
		case DEFAULT: s(a).~U(); alive[a] = false; new(store[a]) U(); alive[a] = true; ref[a] = 0; on[a] = false; break;
		case MOVE_CONS: s(a).~U(); alive[a] = false; new(store[a]) U(std::move(s(b))); alive[a] = true; ref[a] = ref[b]; on[a] = on[b];
			s(b).~U(); alive[b] = false; new(store[b]) U(); alive[b] = true; ref[b] = 0; on[b] = false; break;
		case ASSIGN: s(a) = std::move(s(b)); ref[a] = ref[b]; on[a] = on[b]; s(b).~U(); alive[b] = false; new(store[b]) U(); alive[b] = true; ref[b] = 0; on[b] = false; break;
		case SWAP: { using std::swap; swap(s(0), s(1)); std::swap(ref[0], ref[1]); std::swap(on[0], on[1]); break; }
		case WRITE: memset(s(a).data(), 0x5a, s(a).size()); break;   // ASan checks the block really has size() bytes
		}
	}
	void check_state() {
		for(int a = 0; a < 2; a++) {
			U &x = s(a);
			if(bool(x) != on[a]) throw Violation{"C16", "unique_memory:engaged", "null-ness differs from the reference"};
			if(x.size() != ref[a]) throw Violation{"C16", "unique_memory:size", "size() differs from the reference"};
			if(on[a] && heap().size_of(x.data()) != ref[a]) throw Violation{"C16", "unique_memory:block", "data() is not a live block of size()"};
		}
		if(res) res->outcomes.insert(std::to_string(ref[0]) + "/" + std::to_string(ref[1]));
	}
	void final_check() { for(int a = 0; a < 2; a++) if(alive[a]) { s(a).~U(); alive[a] = false; } raise_pending(); world_check_empty("unique_memory"); }
	void canon(std::string &out) { world_canon(out); GraphCanon g; for(int a = 0; a < 2; a++) if(alive[a]) g.root(store[a], sizeof(U)); g.emit(out); for(int a = 0; a < 2; a++) out += std::to_string(on[a]) + ":" + std::to_string(ref[a]) + ","; }
};

// construct / construct_n / destruct / destruct_n
struct CdHarness : HarnessBase {
	TrackAlloc alloc;
	Tracked *one = nullptr, *many = nullptr; size_t n = 0; int v1 = 0, vn = 0;
	const char *prop() const { return "C16"; }
	void reset() { world_reset(); one = many = nullptr; n = 0; }
	enum { CONSTRUCT, CONSTRUCT_N, DESTRUCT, DESTRUCT_N, DESTRUCT_NULL };
	void ops(std::vector<uint32_t> &out) {
		if(!one) { out.push_back(mkop(CONSTRUCT, 0, 1)); out.push_back(mkop(CONSTRUCT, 0, 2)); } else out.push_back(mkop(DESTRUCT, 0));
		if(!many) { for(uint32_t k : {0u, 1u, 3u}) out.push_back(mkop(CONSTRUCT_N, 0, k)); } else out.push_back(mkop(DESTRUCT_N, 0));
		out.push_back(mkop(DESTRUCT_NULL, 0));
	}
	std::string show_class(uint32_t op) { static const char *nm[] = {"construct", "construct_n", "destruct", "destruct_n", "destruct(null)"}; return std::string("allocation.") + nm[op & 0xff]; }
	std::string show(uint32_t op) { return show_class(op) + "(" + std::to_string(op >> 12) + ")"; }
	void apply(uint32_t op) {
		uint32_t k = op & 0xff; int v = op >> 12;
		switch(k) {
		case CONSTRUCT: one = frg::construct<Tracked>(alloc, v); v1 = v; break;
		case CONSTRUCT_N: many = frg::construct_n<Tracked>(alloc, (size_t)v, 2); n = v; break;
		case DESTRUCT: frg::destruct(alloc, one); one = nullptr; break;
		case DESTRUCT_N: frg::destruct_n(alloc, many, n); many = nullptr; n = 0; break;
		case DESTRUCT_NULL: frg::destruct(alloc, (Tracked *)nullptr); frg::destruct_n(alloc, (Tracked *)nullptr, 3); break;
		}
	}
	void check_state() {
		if(one && val(*one) != v1) throw Violation{"C16", "construct:value", "construct() built the wrong value"};
		for(size_t i = 0; i < n; i++) if(val(many[i]) != 2) throw Violation{"C16", "construct_n:value", "construct_n() built the wrong value"};
		if(one && heap().size_of(one) != sizeof(Tracked)) throw Violation{"C16", "construct:block", "construct() block has the wrong size"};
		if(many && heap().size_of(many) != sizeof(Tracked) * n) throw Violation{"C16", "construct_n:block", "construct_n() block has the wrong size"};
	}
	void final_check() { if(one) frg::destruct(alloc, one); if(many) frg::destruct_n(alloc, many, n); one = many = nullptr; n = 0; raise_pending(); world_check_empty("construct/destruct"); }
	void canon(std::string &out) { world_canon(out); out += std::to_string(one ? v1 : 0) + "," + std::to_string(many ? (int)n + 1 : 0); }
};

// An element whose destructor calls back into its owner, the way an idempotent close()/shutdown() does ("if the slot still
// holds me, clear it").  std::unique_ptr::reset stores the new pointer before it destroys the old object, so during the
// old object's destructor the owner no longer designates it and the call-back does nothing; an owner that destroys first
// and re-points afterwards destroys the element a second time from inside its own destructor.  (Only reset() is driven this
// way: calling into an owner whose own destructor is running is not something a program may do.)
struct Closer : Tracked {
	frg::unique_ptr<Closer, TrackAlloc> *owner = nullptr;
	bool dying = false;
	static inline bool armed = false;
	Closer(int v, frg::unique_ptr<Closer, TrackAlloc> *o) : Tracked(v), owner(o) {}
	~Closer() {
		if(dying) { note("C16", "unique_ptr:element-destroyed-during-its-own-destruction", "reset() ran the destructor of an element whose destructor was already running (the owner still designated it)"); return; }
		dying = true;
		if(armed && owner && owner->get() == this) owner->reset(nullptr);
	}
};
static InstResult reentrant_element() {
	InstResult r; r.name = "unique_ptr-reentrant-element"; r.complete = true; r.fixpoint = true;
	using U = frg::unique_ptr<Closer, TrackAlloc>;
	auto bad = [&](const std::string &sig, const std::string &msg, const std::string &h) { r.add_violation({"C16", sig, msg}, h); };
	for(int second = 0; second < 3; second++) for(int via = 0; via < 2; via++) {
		std::string h = std::string(via ? "make_unique" : "ctor(alloc,ptr)") + ", reset(" + (second == 0 ? "nullptr" : second == 1 ? "new element" : "new element, then nullptr") + ") with an element that clears its owner from its destructor";
		try {
			world_reset(); pending().reset(); Closer::armed = false;
			alignas(16) unsigned char store[sizeof(U)]; memset(store, 0xA5, sizeof store);
			auto fresh = [&](int v) { TrackAlloc al{1}; return new(al.allocate(sizeof(Closer))) Closer(v, reinterpret_cast<U *>(store)); };
			U *u = via ? new(store) U(frg::make_unique<Closer>(TrackAlloc{1}, 1, reinterpret_cast<U *>(store))) : new(store) U(TrackAlloc{1}, fresh(1));
			Closer::armed = true;
			if(second == 0) u->reset(nullptr);
			else { Closer *n = fresh(2); u->reset(n); if(u->get() != n || val(*n) != 2) bad("unique_ptr.reset:value", "reset(p) does not leave p in the owner", h); if(second == 2) u->reset(nullptr); }
			Closer::armed = false;
			raise_pending();
			if((second == 1) != bool(*u)) bad("unique_ptr:engaged", "null-ness after reset differs from the reference", h);
			u->~U();
			raise_pending();
			world_check_empty("unique_ptr(re-entrant element)");
			r.evaluations++; r.distinct++;
		} catch(const Violation &v) { r.add_violation(v, h); }
		catch(const Panic &p) { bad("panic:unique_ptr.reset", p.text, h); }
		Closer::armed = false;
	}
	r.samples.push_back("unique_ptr<Closer>: reset(nullptr) / reset(new) / both, element destructor clears its owner if the owner still designates it");
	return r;
}

static std::vector<Instance> instances(const std::string &) {
	std::vector<Instance> v;
	v.push_back(bfs_instance<UpHarness>("unique_ptr", BfsOptions{}));
	v.push_back(bfs_instance<UmHarness>("unique_memory", BfsOptions{}));
	v.push_back(bfs_instance<CdHarness>("construct-destruct", BfsOptions{}));
	Instance re; re.name = "unique_ptr-reentrant-element";
	re.run = [](const std::vector<CrashInfo> &) { return reentrant_element(); };
	re.replay = [](const std::string &) { InstResult r = reentrant_element(); for(auto &v : r.violations) printf("REPLAY-VIOLATION property=%s sig=%s: %s\n", v.prop.c_str(), v.sig.c_str(), v.msg.c_str()); return (int)r.violations.size(); };
	v.push_back(re);
	return v;
}
int main(int argc, char **argv) { return harness_main(argc, argv, instances); }
