// C11 (engine B): QS domain with agents as threads; std::atomic in qs.hpp is replaced by a
// scheduling-point atomic and the domain mutex is the scheduler's mutex, so every atomic access and
// every lock operation is a scheduling point.  Safety oracle on the recorded call history with the
// weakest reading of "has since been inside quiescent_state() or offline()", vector-clock oracle for
// the happens-before clause, termination (no lost grace period, no blocked call) on every schedule.
#include "../engine/vsched.hpp"
#include <stdint.h>
#include <type_traits>
#include <utility>
#include <frg/list.hpp>
#include <frg/macros.hpp>
#include <frg/utility.hpp>
namespace std { template<class T> using verif_atomic = ::verif::atomic<T>; }
#define atomic verif_atomic
#include <frg/qs.hpp>
#undef atomic

using namespace verif;
#if VERIF_ASAN
#define APOISON(p, n) __asan_poison_memory_region((p), (n))
#define AUNPOISON(p, n) __asan_unpoison_memory_region((p), (n))
#else
#define APOISON(p, n) ((void)0)
#define AUNPOISON(p, n) ((void)0)
#endif

using Domain = frg::qs_domain<VMutex>;
using Agent = frg::qs_agent<VMutex>;

enum StepK { ONLINE, OFFLINE, QS, AWAIT, RUN_UNTIL_FIRED, BARRIER, WRITE, RUN_ONCE, SET, WAIT, QS_UNTIL };
struct Step { StepK k; int arg; };
struct Script { std::vector<std::vector<Step>> threads; };

struct QsMt;
static QsMt *g_q = nullptr;
struct MNode : frg::qs_node { int agent, idx; };

struct QsMt {
	Script sc;
	alignas(64) unsigned char dom_store[sizeof(Domain)];
	alignas(64) unsigned char agent_store[VS_MAX_THREADS][sizeof(Agent)];
	alignas(64) unsigned char node_store[VS_MAX_THREADS][4][sizeof(MNode)];
	bool created[VS_MAX_THREADS];
	int data[VS_MAX_THREADS][4];                 // plain data written by the agents before their quiescent states
	int flag[4];                                 // harness flags: WAIT blocks in the scheduler until SET (they order nothing)
	// call log (not under TSan): per agent the quiescent_state()/offline() calls and online intervals
	struct Call { int inv, ret; bool offline; };
	std::vector<Call> qcalls[VS_MAX_THREADS];
	struct Interval { int online_ret, offline_inv; };   // online() returned ... offline() invoked (-1: not yet)
	std::vector<Interval> on[VS_MAX_THREADS];
	int fired[VS_MAX_THREADS][4]; int reg_ts[VS_MAX_THREADS][4]; int running[VS_MAX_THREADS];
	int nfired[VS_MAX_THREADS];
	std::string sig;
	QsMt(Script s) : sc(std::move(s)) {}
	const char *prop() { return "C11"; }
	Domain &dom() { return *reinterpret_cast<Domain *>(dom_store); }
	Agent &agent(int i) { return *reinterpret_cast<Agent *>(agent_store[i]); }
	MNode &node(int i, int k) { return *reinterpret_cast<MNode *>(node_store[i][k]); }
	int nthreads() { return (int)sc.threads.size(); }
	static int now() { return vs_tr.npoints; }

	void setup() {
		g_q = this;
		AUNPOISON(node_store, sizeof node_store);
		memset(dom_store, 0xA5, sizeof dom_store); memset(agent_store, 0xA5, sizeof agent_store); memset(node_store, 0xA5, sizeof node_store);
		new(dom_store) Domain;
		for(int i = 0; i < VS_MAX_THREADS; i++) { created[i] = false; qcalls[i].clear(); on[i].clear(); for(int k = 0; k < 4; k++) { fired[i][k] = 0; reg_ts[i][k] = -1; data[i][k] = 0; } }
		for(int i = 0; i < VS_MAX_THREADS; i++) { running[i] = 0; nfired[i] = 0; }
		for(auto &f : flag) __atomic_store_n(&f, 0, __ATOMIC_RELAXED);
	}
	// Which agents must be covered for a registration at time I, and are they?  Weakest reading:
	// X is required iff its online() had returned before I and its offline() was not invoked before I;
	// X is covered by a quiescent_state()/offline() call that was in progress at I or invoked after it.
	void check_grace(int i, int I, const char *what) {
#if !VERIF_TSAN
		for(int x = 0; x < nthreads(); x++) {
			bool required = false;
			for(auto &iv : on[x]) if(iv.online_ret >= 0 && iv.online_ret < I && (iv.offline_inv < 0 || iv.offline_inv >= I)) required = true;
			if(!required) continue;
			int cover = -1;
			for(size_t j = 0; j < qcalls[x].size(); j++) { auto &c = qcalls[x][j]; if(c.inv >= I || (c.inv < I && (c.ret < 0 || c.ret > I))) { cover = (int)j; break; } }
			if(cover < 0) vs_fail("C11", std::string("qs:") + what + "-before-grace-period", std::string(what) + " of agent " + std::to_string(i) + " completed although agent " + std::to_string(x) + ", online at registration, has not been inside quiescent_state()/offline() since");
			if(x != i && !hb_before("a" + std::to_string(x) + "-q" + std::to_string(cover)))
				vs_fail("C11", std::string("qs:") + what + "-no-happens-before", "what agent " + std::to_string(x) + " did before entering its quiescent state does not happen-before the " + what + " of agent " + std::to_string(i) + " (memory orders too weak)");
		}
#else
		(void)i; (void)I; (void)what;
#endif
	}
	static void on_grace(frg::qs_node *qn) {
		QsMt &h = *g_q;
		MNode *n = static_cast<MNode *>(qn);
		int i = n->agent, k = n->idx;
		if(vs_self() != i || !h.running[i]) vs_fail("C11", "qs:callback-outside-run", "callback invoked outside run() of the registering agent");
		if(h.fired[i][k]) vs_fail("C11", "qs:callback-twice", "callback invoked twice");
		h.check_grace(i, h.reg_ts[i][k], "callback");
		// the callback may read what the other agents wrote before their quiescent states (TSan checks the ordering)
		int sum = 0; for(int x = 0; x < h.nthreads(); x++) for(int d = 0; d < 4; d++) sum += h.data[x][d];
		h.fired[i][k] = 1 + (sum & 0); h.nfired[i]++;
		APOISON(n, sizeof(MNode));
	}
	void quiesce(int i, bool offline) {
#if !VERIF_TSAN
		int j = (int)qcalls[i].size();
		hb_mark("a" + std::to_string(i) + "-q" + std::to_string(j));
		qcalls[i].push_back({now(), -1, offline});
		if(offline) for(auto &iv : on[i]) if(iv.offline_inv < 0) iv.offline_inv = now();
#endif
		if(offline) agent(i).offline(); else agent(i).quiescent_state();
#if !VERIF_TSAN
		qcalls[i][j].ret = now();
#endif
	}
	void body(int i) {
		for(auto &st : sc.threads[i]) {
			switch(st.k) {
			case ONLINE:
				if(!created[i]) { new(agent_store[i]) Agent(&dom()); created[i] = true; } else agent(i).online();
#if !VERIF_TSAN
				on[i].push_back({now(), -1});
#endif
				break;
			case OFFLINE: quiesce(i, true); break;
			case QS: quiesce(i, false); break;
			case WRITE: data[i][st.arg] = 1; break;
			case AWAIT: {
				MNode *n = new(node_store[i][st.arg]) MNode; n->agent = i; n->idx = st.arg; n->on_grace_period = &on_grace;
				reg_ts[i][st.arg] = now();
				agent(i).await_barrier(n); break;
			}
			case SET: vs_point(VS_STORE, &flag[st.arg]); __atomic_store_n(&flag[st.arg], 1, __ATOMIC_RELAXED); break;
			case WAIT: vs_point(VS_WAITFLAG, &flag[st.arg]); break;
			case QS_UNTIL: for(;;) { quiesce(i, false); vs_point(VS_LOAD, &flag[st.arg]); if(__atomic_load_n(&flag[st.arg], __ATOMIC_RELAXED)) break; vs_point(VS_YIELD, nullptr); } break;
			case RUN_ONCE: running[i] = 1; agent(i).run(); running[i] = 0; break;
			case RUN_UNTIL_FIRED:
				for(;;) {
					quiesce(i, false);
					running[i] = 1; agent(i).run(); running[i] = 0;
					bool all = true; for(int k = 0; k < 4; k++) if(reg_ts[i][k] >= 0 && !fired[i][k]) all = false;
					if(all) break;
					vs_point(VS_YIELD, nullptr);
				}
				break;
			case BARRIER: {
				int I = now();
				// the barrier is itself a sequence of quiescent states of the calling agent
#if !VERIF_TSAN
				int j = (int)qcalls[i].size(); hb_mark("a" + std::to_string(i) + "-q" + std::to_string(j)); qcalls[i].push_back({I, -1, false});
#endif
				agent(i).quiescent_barrier();
#if !VERIF_TSAN
				qcalls[i][j].ret = now();
#endif
				check_grace(i, I, "quiescent_barrier");
				int sum = 0; for(int x = 0; x < nthreads(); x++) for(int d = 0; d < 4; d++) sum += data[x][d];
				(void)sum;
				break;
			}
			}
		}
	}
	void finish() {
		int want = 0;
		for(auto &t : sc.threads) { bool waits = false; for(auto &s : t) if(s.k == RUN_UNTIL_FIRED) waits = true; if(waits) for(auto &s : t) if(s.k == AWAIT) want++; }
		int nfired_total = 0; for(int i = 0; i < VS_MAX_THREADS; i++) nfired_total += nfired[i];
		if(nfired_total < want) throw Violation{"C11", "qs:callback-never-fired", "a registered callback was never invoked although its agent kept calling quiescent_state() and run()"};
		if(dom_locked()) throw Violation{"C11", "qs:mutex-left-locked", "the domain mutex is still held at the end"};
		sig = "fired=" + std::to_string(nfired_total);
	}
	bool dom_locked() { return false; }
	std::string outcome() { return sig; }
};

static std::vector<Instance> instances(const std::string &tier) {
	bool th = tier == "thorough";
	std::vector<Instance> v;
	auto add = [&](const std::string &name, int bound, Script s) { SchedOptions o; o.bound = bound; o.horizon = 6000; o.ro_limit = 16; v.push_back(sched_instance<QsMt>(name + "-b" + std::to_string(bound), o, s)); };
	int B = th ? 3 : 2;
	std::vector<Step> W = {{ONLINE, 0}, {WRITE, 0}, {QS, 0}, {WRITE, 1}, {QS, 0}, {WRITE, 2}, {OFFLINE, 0}};
	std::vector<Step> R = {{ONLINE, 0}, {AWAIT, 0}, {RUN_UNTIL_FIRED, 0}, {OFFLINE, 0}};
	// Q1: a registrar waits for its callback while a worker passes through quiescent states and leaves
	add("Q1-registrar-vs-worker", B, Script{{R, W}});
	// Q2: quiescent_barrier against a worker
	add("Q2-barrier-vs-worker", B, Script{{{{ONLINE, 0}, {BARRIER, 0}, {OFFLINE, 0}}, W}});
	// Q3: the worker joins late and leaves early
	add("Q3-late-join-early-leave", B, Script{{R, {{ONLINE, 0}, {WRITE, 0}, {OFFLINE, 0}}}});
	// Q4: two registrars, each with its own pending barrier
	add("Q4-two-registrars", B, Script{{R, {{ONLINE, 0}, {WRITE, 0}, {AWAIT, 0}, {RUN_UNTIL_FIRED, 0}, {OFFLINE, 0}}}});
	// Q5: deferred grace period restarted by a late await
	add("Q5-deferred-then-await", B, Script{{{{ONLINE, 0}, {QS, 0}, {QS, 0}, {AWAIT, 0}, {RUN_UNTIL_FIRED, 0}, {OFFLINE, 0}}, {{ONLINE, 0}, {QS, 0}, {WRITE, 0}, {QS, 0}, {QS, 0}, {OFFLINE, 0}}}});
	// Q9: the worker is online before the registration, reports quiescent states until the callback has
	// fired and only then leaves: its acknowledgements are the only link between its writes and the callback
	add("Q9-worker-stays-online", B, Script{{{{ONLINE, 0}, {SET, 0}, {WAIT, 1}, {AWAIT, 0}, {RUN_UNTIL_FIRED, 0}, {SET, 2}, {OFFLINE, 0}}, {{WAIT, 0}, {ONLINE, 0}, {SET, 1}, {WRITE, 0}, {QS_UNTIL, 2}, {WRITE, 1}, {OFFLINE, 0}}}});
	add("Q10-barrier-worker-stays-online", B, Script{{{{ONLINE, 0}, {SET, 0}, {WAIT, 1}, {BARRIER, 0}, {SET, 2}, {OFFLINE, 0}}, {{WAIT, 0}, {ONLINE, 0}, {SET, 1}, {WRITE, 0}, {QS_UNTIL, 2}, {OFFLINE, 0}}}});
	// Q11: an older barrier is pending (so the period counter keeps advancing) while two agents are inside
	// await_barrier at the same time and read different period counters: the desired-counter CAS of one
	// of them loses and has to be retried
	add("Q11-concurrent-await-barriers", B + 1, Script{{{{ONLINE, 0}, {AWAIT, 0}, {SET, 0}, {WAIT, 1}, {QS, 0}, {SET, 3}, {WAIT, 2}, {QS, 0}, {AWAIT, 1}, {RUN_UNTIL_FIRED, 0}, {OFFLINE, 0}},
		{{WAIT, 0}, {ONLINE, 0}, {SET, 1}, {WAIT, 3}, {QS, 0}, {SET, 2}, {AWAIT, 0}, {RUN_UNTIL_FIRED, 0}, {OFFLINE, 0}}}});
	if(th) {
		add("Q6-three-agents", 2, Script{{R, W, {{ONLINE, 0}, {WRITE, 0}, {QS, 0}, {OFFLINE, 0}}}});
		add("Q7-two-barriers-one-agent", 2, Script{{{{ONLINE, 0}, {AWAIT, 0}, {QS, 0}, {AWAIT, 1}, {RUN_UNTIL_FIRED, 0}, {OFFLINE, 0}}, W}});
		add("Q8-barrier-vs-barrier", 2, Script{{{{ONLINE, 0}, {BARRIER, 0}, {OFFLINE, 0}}, {{ONLINE, 0}, {WRITE, 0}, {BARRIER, 0}, {OFFLINE, 0}}}});
	}
	return v;
}
int main(int argc, char **argv) { return harness_main(argc, argv, instances); }
