// C07: frg::interval_tree — for_overlaps is exact after any insert/remove history.
// Node pool: every closed interval [lo,hi] over the endpoint universe {0..U}, `copies` copies each;
// at most M nodes in the tree at once.  In every reached state EVERY query (lb,ub) with
// -1 <= lb <= ub <= U+1 and every one-argument query is evaluated against brute force.
#include "../engine/seqmc.hpp"
#include <frg/interval_tree.hpp>
#include <algorithm>

using namespace verif;

// An endpoint type whose move leaves the source in a recognisable "moved-from" state (like a heap-backed big integer or
// a string key): the tree may copy endpoints freely but must not use a value after moving from it.
struct MovP {
	int v;
	MovP(int x = 0) : v(x) {}
	MovP(const MovP &) = default;
	MovP(MovP &&o) noexcept : v(o.v) { o.v = -1000000; }
	MovP &operator=(const MovP &) = default;
	MovP &operator=(MovP &&o) noexcept { int t = o.v; if(&o != this) o.v = -1000000; v = t; return *this; }
	friend bool operator<(const MovP &a, const MovP &b) { return a.v < b.v; }
	friend bool operator>(const MovP &a, const MovP &b) { return a.v > b.v; }
	friend bool operator<=(const MovP &a, const MovP &b) { return a.v <= b.v; }
	friend bool operator>=(const MovP &a, const MovP &b) { return a.v >= b.v; }
	friend bool operator==(const MovP &a, const MovP &b) { return a.v == b.v; }
	friend bool operator!=(const MovP &a, const MovP &b) { return a.v != b.v; }
};
template<class P> struct INodeT {
	P lo, hi;
	frg::rbtree_hook rb;
	frg::interval_hook<P> ih;
	int id;
};
static constexpr int MAXNODES = 32;

template<class P>
struct IvHarnessT {
	using INode = INodeT<P>;
	using ITree = frg::interval_tree<INode, P, &INode::lo, &INode::hi, &INode::rb, &INode::ih>;
	static constexpr bool has_snapshot = true;
	InstResult *res = nullptr;
	int U, copies, M, fresh, n = 0;
	int off = 0;   // every endpoint (and every query) is shifted by this: negative and mixed-sign universes
	struct World {
		alignas(16) unsigned char tree[sizeof(ITree)];
		alignas(16) unsigned char nodes[sizeof(INode) * MAXNODES];
	} w;
	uint32_t in_tree = 0; // bitmask: reference multiset
	std::vector<std::pair<int, int>> ivs;

	IvHarnessT(int U_, int copies_, int M_, int fresh_, int off_ = 0) : U(U_), copies(copies_), M(M_), fresh(fresh_), off(off_) {
		for(int c = 0; c < copies; c++)
			for(int lo = 0; lo <= U; lo++) for(int hi = lo; hi <= U; hi++) ivs.push_back({lo, hi});
		n = (int)ivs.size();
		if(n > MAXNODES) abort();
	}
	const char *prop() const { return "C07"; }
	ITree &tree() { return *reinterpret_cast<ITree *>(w.tree); }
	INode &node(int i) { return reinterpret_cast<INode *>(w.nodes)[i]; }

	void reset() {
		memset(&w, 0xA5, sizeof w);   // nodes and trees are built in storage that is not all-zero, and default-initialised
		new(w.tree) ITree;
		for(int i = 0; i < n; i++) {
			INode *p = new(&node(i)) INode;
			p->lo = ivs[i].first + off; p->hi = ivs[i].second + off; p->id = i;
		}
		in_tree = 0;
	}
	void ops(std::vector<uint32_t> &out) {
		int cnt = __builtin_popcount(in_tree);
		if(cnt < M) for(int i = 0; i < n; i++) if(!(in_tree >> i & 1)) {
			// symmetry: among identical absent copies only the lowest id is inserted
			bool lower_copy_absent = false;
			for(int j = 0; j < i; j++) if(ivs[j] == ivs[i] && !(in_tree >> j & 1)) lower_copy_absent = true;
			if(!lower_copy_absent) out.push_back(i);
		}
		for(int i = 0; i < n; i++) if(in_tree >> i & 1) out.push_back(0x100 | i);
	}
	std::string show_class(uint32_t op) { return (op & 0x100) ? "remove" : "insert"; }
	std::string show(uint32_t op) {
		int i = op & 0xff; char b[64];
		snprintf(b, sizeof b, "%s(n%d=[%d,%d])", (op & 0x100) ? "remove" : "insert", i, ivs[i].first, ivs[i].second);
		return b;
	}
	void apply(uint32_t op) {
		int i = op & 0xff;
		if(op & 0x100) {
			tree().remove(&node(i)); in_tree &= ~(1u << i);
			auto &hk = node(i).rb;
			if(hk.parent || hk.left || hk.right || hk.predecessor || hk.successor)
				throw Violation{"C07", "removed-hook-not-reset", "links of removed node are not null"};
			if(fresh) { // the caller re-creates the node object before using it again
				memset(&node(i), 0xA5, sizeof(INode));
				INode *p = new(&node(i)) INode;
				p->lo = ivs[i].first + off; p->hi = ivs[i].second + off; p->id = i;
			}
		}
		else { tree().insert(&node(i)); in_tree |= 1u << i; }
	}
	void query(int lb, int ub, bool single) {
		int seen[MAXNODES] = {0};
		auto fn = [&](INode *x) { seen[x->id]++; };
		if(single) tree().for_overlaps(fn, P(lb + off));
		else tree().for_overlaps(fn, P(lb + off), P(ub + off));
		for(int i = 0; i < n; i++) {
			bool want = (in_tree >> i & 1) && ivs[i].first <= ub && lb <= ivs[i].second;
			char q[48]; snprintf(q, sizeof q, "q[%d,%d]%s", lb, ub, single ? "(1-arg)" : "");
			if(want && seen[i] == 0) throw Violation{"C07", "overlap-missed", std::string(q) + " missed stored interval " + show(i)};
			if(want && seen[i] > 1) throw Violation{"C07", "overlap-twice", std::string(q) + " reported " + show(i) + " more than once"};
			if(!want && seen[i]) throw Violation{"C07", (in_tree >> i & 1) ? "overlap-spurious" : "overlap-removed-node", std::string(q) + " reported non-overlapping/absent " + show(i)};
		}
		if(res) res->evaluations++;
	}
	void check_state() {
		for(int lb = -1; lb <= U + 1; lb++) {
			for(int ub = lb; ub <= U + 1; ub++) query(lb, ub, false);
			query(lb, lb, true);
		}
		if(res) { res->distinct++; res->outcomes.insert("stored=" + std::to_string(__builtin_popcount(in_tree))); }
	}
	void final_check() {}
	void canon(std::string &out) {
		out.append((const char *)&w, sizeof w);
		out.append((const char *)&in_tree, 4);
	}
	void save(std::string &b) { b.clear(); canon(b); }
	void load(const std::string &b) { memcpy(&w, b.data(), sizeof w); memcpy(&in_tree, b.data() + sizeof w, 4); }
};

using IvHarness = IvHarnessT<int>;
static Instance mkinst(int U, int copies, int M, int fresh) {
	std::string name = "iv-U" + std::to_string(U) + "-c" + std::to_string(copies) + "-M" + std::to_string(M) + "-f" + std::to_string(fresh);
	return bfs_instance<IvHarness>(name, BfsOptions{}, U, copies, M, fresh);
}
static std::vector<Instance> mk(const std::string &tier) {
	std::vector<Instance> v;
	bool th = tier == "thorough";
	struct Cfg { int U, copies, M, fresh; };
	// fresh=1: a removed node object is re-created before re-use; fresh=0: re-used with stale colour/aggregate
	std::vector<Cfg> cfgs = th ? std::vector<Cfg>{{2, 2, 6, 1}, {3, 1, 7, 1}, {3, 2, 5, 1}, {4, 1, 6, 1}, {5, 1, 4, 1}, {1, 3, 7, 1}, {2, 1, 6, 0}, {1, 3, 5, 0}, {1, 2, 4, 0}, {3, 1, 2, 0}}
	                           : std::vector<Cfg>{{2, 2, 5, 1}, {3, 1, 7, 1}, {4, 1, 4, 1}, {1, 3, 6, 1}, {2, 1, 5, 0}, {1, 2, 4, 0}};   // (U3 with 7 stored: the smallest trees in which an insert rotates three levels below the root)
	for(auto c : cfgs) v.push_back(mkinst(c.U, c.copies, c.M, c.fresh));
	// the same trees over negative and mixed-sign endpoints (an absent child must not count as 0 in the aggregate)
	v.push_back(bfs_instance<IvHarness>("iv-negative-endpoints-U3-c1-M" + std::to_string(th ? 6 : 5), BfsOptions{}, 3, 1, th ? 6 : 5, 1, -20));
	v.push_back(bfs_instance<IvHarness>("iv-mixed-sign-endpoints-U3-c1-M" + std::to_string(th ? 6 : 5), BfsOptions{}, 3, 1, th ? 6 : 5, 1, -2));
	v.push_back(bfs_instance<IvHarnessT<MovP>>("iv-movable-endpoint-U3-c1-M" + std::to_string(th ? 5 : 4), BfsOptions{}, 3, 1, th ? 5 : 4, 1));
	return v;
}
int main(int argc, char **argv) {
	return harness_main(argc, argv, [&](const std::string &tier) {
		auto v = mk(tier);
		int U, c, M, f;
		if(argc >= 4 && sscanf(argv[3], "iv-U%d-c%d-M%d-f%d", &U, &c, &M, &f) == 4) {
			bool have = false; for(auto &i : v) if(i.name == argv[3]) have = true;
			if(!have) v.push_back(mkinst(U, c, M, f));
		}
		return v;
	});
}
