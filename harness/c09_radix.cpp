// C09 (+C16): frg::rcu_radixtree as a sequential map over 64-bit keys.
// For every subset S (|S| <= 3, thorough also 4) of a key alphabet built from the code's shortcuts
// (first difference at each of the 16 nibble positions, extremes, dense leaf neighbours) a BFS over
// insert / find_or_insert / erase on the keys of S runs to fixpoint.  canon = raw bytes of the bump
// arena the tree allocates from (deterministic addresses) + reference map.
#include "../engine/seqmc.hpp"
#include "../engine/world.hpp"
#include <frg/rcu_radixtree.hpp>
#include <map>
#include <algorithm>

using namespace verif;

// Bump allocator over a fixed arena; blocks are also registered in the tracking registry so that
// sizes / double frees / leaks are checked (C16).
static constexpr size_t ARENA = 1 << 16;
alignas(64) static unsigned char arena[ARENA];
static size_t arena_top = 0;
struct BumpAlloc {
	void *allocate(size_t n) {
		size_t a = (arena_top + 15) & ~size_t(15);
		if(a + n > ARENA) abort();
		arena_top = a + n;
		void *p = arena + a;
		memset(p, 0xA5, n);
		heap().blocks[p] = n; heap().allocs++;
		return p;
	}
	void release(void *p, size_t n, bool sized) {
		auto it = heap().blocks.find(p);
		if(it == heap().blocks.end()) { note("C16", "alloc:free-of-unknown-block", "radix tree returned a block that is not live"); return; }
		if(sized && it->second != n) note("C16", "alloc:deallocate-size-mismatch", "radix tree deallocate size differs from the allocated size");
		auto &lv = life().live;
		auto lo = lv.lower_bound(p);
		bool leaked = false;
		while(lo != lv.end() && (const char *)*lo < (const char *)p + it->second) { lo = lv.erase(lo); leaked = true; }
		if(leaked) note("C16", "life:block-freed-with-live-elements", "a tree node was freed while values inside it were still alive");
		heap().blocks.erase(it); heap().frees++;
	}
	void deallocate(void *p, size_t n) { if(p) release(p, n, true); }
	void free(void *p) { if(p) release(p, 0, false); }
};

struct RVal : Tracked {
	uint64_t key, nkey;
	RVal(uint64_t k, int v) : Tracked(v), key(k), nkey(~k) {}
};
using Tree = frg::rcu_radixtree<RVal, BumpAlloc>;

struct RxHarness : HarnessBase {
	std::vector<uint64_t> S, probe;
	alignas(16) unsigned char store[sizeof(Tree)];
	bool alive = false;
	struct R { int v; RVal *addr; };
	std::map<uint64_t, R> ref;
	RxHarness(std::vector<uint64_t> s) : S(std::move(s)) {
		probe = S;
		for(uint64_t k : S) for(int j = 0; j < 16; j++) { probe.push_back(k ^ (uint64_t(1) << (4 * j))); probe.push_back(k ^ (uint64_t(8) << (4 * j))); }
		std::sort(probe.begin(), probe.end()); probe.erase(std::unique(probe.begin(), probe.end()), probe.end());
	}
	const char *prop() const { return wanted_prop() == "C16" ? "C16" : "C09"; }   // C16 runs this harness too: a crash, sanitizer report or assertion then counts for it
	Tree &t() { return *reinterpret_cast<Tree *>(store); }
	void reset() {
		heap().blocks.clear(); // arena blocks must not reach ::free
		world_reset();
		memset(arena, 0, arena_top); arena_top = 0;
		memset(store, 0xA5, sizeof store); new(store) Tree(BumpAlloc{}); alive = true; ref.clear();
	}
	enum { INSERT, FOI, ERASE };
	void ops(std::vector<uint32_t> &out) {
		for(uint32_t i = 0; i < S.size(); i++) {
			if(!ref.count(S[i])) out.push_back(INSERT | i << 8 | 1 << 16);
			out.push_back(FOI | i << 8 | 2 << 16);
			if(ref.count(S[i])) out.push_back(ERASE | i << 8);
		}
	}
	std::string show_class(uint32_t op) { static const char *nm[] = {"insert", "find_or_insert", "erase"}; return std::string("radix.") + nm[op & 0xff]; }
	std::string show(uint32_t op) { char b[80]; snprintf(b, sizeof b, "%s(0x%llx,v=%u)", show_class(op).c_str(), (unsigned long long)S[(op >> 8) & 0xff], op >> 16); return b; }
	[[noreturn]] void fail(const std::string &sig, const std::string &msg) { throw Violation{"C09", "radix:" + sig, msg}; }
	void apply(uint32_t op) {
		uint32_t kind = op & 0xff; uint64_t k = S[(op >> 8) & 0xff]; int v = op >> 16;
		switch(kind) {
		case INSERT: {
			RVal *p = t().insert(k, k, v);
			if(!p || p->key != k || val(*p) != v) fail("insert:result", "insert() returned a pointer to the wrong value");
			ref[k] = {v, p}; break;
		}
		case FOI: {
			size_t cons = life().constructions;
			auto r = t().find_or_insert(k, k, v);
			RVal *p = r.get<0>(); bool ins = r.get<1>();
			auto it = ref.find(k);
			if(it != ref.end()) {
				if(ins) fail("find_or_insert:reinserted", "find_or_insert reported an insertion for a present key");
				if(p != it->second.addr) fail("find_or_insert:address", "find_or_insert returned a different address for a present key");
				if(life().constructions != cons) fail("find_or_insert:constructed", "find_or_insert constructed a value although the key is present");
			} else {
				if(!ins) fail("find_or_insert:not-inserted", "find_or_insert did not report an insertion for an absent key");
				if(!p || p->key != k || val(*p) != v) fail("find_or_insert:value", "find_or_insert built the wrong value");
				ref[k] = {v, p};
			}
			break;
		}
		case ERASE: {
			RVal *p = ref[k].addr;
			t().erase(k);
			ref.erase(k);
			// the caller ends the lifetime of the removed value unless the tree did (see DESIGN.md C16)
			if(life().live.count(p)) p->~RVal();
			break;
		}
		}
	}
	void check_state() {
		for(uint64_t k : probe) {
			RVal *p = t().find(k);
			auto it = ref.find(k);
			char kb[32]; snprintf(kb, sizeof kb, "0x%llx", (unsigned long long)k);
			if(it == ref.end()) { if(p) fail("find:spurious", std::string("find(") + kb + ") found an absent key"); }
			else {
				if(!p) fail("find:lost", std::string("find(") + kb + ") lost a present key");
				if(p != it->second.addr) fail("find:address", std::string("address of the value under ") + kb + " changed");
				if(p->key != k || p->nkey != ~k || val(*p) != it->second.v) fail("find:value", std::string("value under ") + kb + " is not the one inserted");
			}
		}
		std::vector<uint64_t> seen; size_t guard = 0;
		for(auto it = t().begin(); it != t().end(); ++it) {
			if(++guard > ref.size() + 1) fail("iteration:runaway", "iteration yields more values than present keys");
			seen.push_back(it->key);
			if((*it).key != it->key) fail("iteration:deref", "operator* and operator-> disagree");
		}
		std::vector<uint64_t> want; for(auto &kv : ref) want.push_back(kv.first);
		if(seen != want) fail("iteration:order", "iteration is not exactly the present keys in ascending order");
		if(res) res->outcomes.insert("present=" + std::to_string(ref.size()) + " nodes=" + std::to_string(heap().blocks.size()));
	}
	void final_check() {
		if(alive) { t().~Tree(); alive = false; }
		raise_pending();
		if(!life().live.empty()) { life().live.clear(); throw Violation{"C16", "life:leak:radix", "values present at destruction were not destroyed by the tree"}; }
		if(heap().outstanding()) { heap().blocks.clear(); throw Violation{"C16", "alloc:leak:radix", "tree nodes were not returned to the allocator"}; }
	}
	void canon(std::string &out) {
		out.append((const char *)arena, arena_top);
		out.append((const char *)store, sizeof store);
		for(auto &kv : ref) { out.append((const char *)&kv.first, 8); out.push_back((char)kv.second.v); }
		out += std::to_string(life().live.size());
	}
};

static std::vector<uint64_t> alphabet(bool full) {
	std::vector<uint64_t> k = {0, ~uint64_t(0)};
	for(int j = 0; j < 16; j++) k.push_back(uint64_t(1) << (60 - 4 * j));
	k.push_back(uint64_t(2) << 60); k.push_back(2);
	if(full) {
		for(int j = 0; j < 16; j++) k.push_back(uint64_t(2) << (60 - 4 * j));
		k.push_back(15); k.push_back(~uint64_t(0) - 15); k.push_back(uint64_t(8) << 60); k.push_back(3);
	}
	std::sort(k.begin(), k.end()); k.erase(std::unique(k.begin(), k.end()), k.end());
	return k;
}
static void subsets(const std::vector<uint64_t> &K, size_t maxsz, size_t minsz, std::vector<std::vector<uint64_t>> &out) {
	std::vector<size_t> idx;
	std::function<void(size_t)> rec = [&](size_t start) {
		if(idx.size() >= minsz) { std::vector<uint64_t> s; for(size_t i : idx) s.push_back(K[i]); out.push_back(s); }
		if(idx.size() == maxsz) return;
		for(size_t i = start; i < K.size(); i++) { idx.push_back(i); rec(i + 1); idx.pop_back(); }
	};
	rec(0);
}

// Trivial value types inserted without constructor arguments: find_or_insert(k) / insert(k) must yield a
// value-initialised T also when the slot held another value before it was erased (erase only clears the presence bit).
// Every subset of <= 3 keys of the quick alphabet, every key of it as the victim, both entry points.
struct PodVal { uint64_t a; int b; };
template<class T, class Get> static void default_insert_cases(InstResult &r, const char *what, const std::vector<std::vector<uint64_t>> &subs, Get get) {
	using TT = frg::rcu_radixtree<T, BumpAlloc>;
	for(auto &s : subs) for(size_t vi = 0; vi < s.size(); vi++) for(int entry = 0; entry < 2; entry++) {
		r.evaluations++; r.distinct++;
		world_reset(); arena_top = 0;
		{
			TT t{BumpAlloc{}};
			for(size_t i = 0; i < s.size(); i++) { T *p = t.insert(s[i]); *p = T{}; memset((void *)p, 0x5c, sizeof(T)); }   // non-zero contents written through the stable address
			t.erase(s[vi]);
			if(t.find(s[vi])) { r.add_violation({"C09", std::string("radix:default-insert:") + what, "find() returns an erased key"}, what); return; }
			T *p = nullptr;
			if(entry == 0) p = t.insert(s[vi]); else { auto pr = t.find_or_insert(s[vi]); p = pr.template get<0>(); if(!pr.template get<1>()) { r.add_violation({"C09", std::string("radix:default-insert:") + what, "find_or_insert of an erased key did not report an insertion"}, what); return; } }
			if(!p || p != t.find(s[vi]) || get(*p) != 0) { char b[96]; snprintf(b, sizeof b, "key %llx re-inserted without arguments holds %llx instead of a value-initialised %s", (unsigned long long)s[vi], (unsigned long long)(p ? get(*p) : 0), what); r.add_violation({"C09", std::string("radix:default-insert:") + what, b}, what); return; }
		}
	}
}
static InstResult default_insert() {
	InstResult r; r.name = "radix-default-insert-trivial"; r.complete = true;
	std::vector<std::vector<uint64_t>> subs; subsets(alphabet(false), 2, 0, subs);
	default_insert_cases<uint64_t>(r, "uint64_t", subs, [](uint64_t &x) { return x; });
	default_insert_cases<PodVal>(r, "aggregate", subs, [](PodVal &x) { return x.a | (uint64_t)x.b; });
	pending().reset();
	r.samples.push_back("rcu_radixtree<uint64_t|aggregate>: insert(k)/find_or_insert(k) without arguments after insert, overwrite, erase - for every subset of <= 2 keys, every victim");
	r.states = r.distinct; r.transitions = r.evaluations;
	return r;
}

// Erasing while walking (the drain / filter idiom, single-threaded): the iterator stands on key k, the caller erases k (or
// not) and advances.  Every present key must still be visited exactly once, in ascending order, whichever subset of the
// visited keys is erased on the way.  Keys: every subset of six slots of one leaf, optionally a key in a later leaf.
static InstResult filtering_walk() {
	InstResult r; r.name = "radix-erase-while-iterating"; r.complete = true;
	using TT = frg::rcu_radixtree<uint64_t, BumpAlloc>;
	const uint64_t base = 0x4000, far = 0x9000;
	for(unsigned present = 1; present < 64; present++) for(unsigned erase = 0; erase < 64; erase++) for(int with_far = 0; with_far < 2; with_far++) {
		if(erase & ~present) continue;
		r.evaluations++; r.distinct++;
		world_reset(); arena_top = 0;
		TT t{BumpAlloc{}};
		std::vector<uint64_t> want;
		for(int i = 0; i < 6; i++) if(present >> i & 1) { *t.insert(base + i * 2) = base + i * 2; want.push_back(base + i * 2); }
		if(with_far) { *t.insert(far) = far; want.push_back(far); }
		std::vector<uint64_t> seen; size_t guard = 0;
		for(auto it = t.begin(); it != t.end(); ++it) {
			if(++guard > 16) break;
			uint64_t k = *it;
			seen.push_back(k);
			if(k >= base && k < base + 12 && (erase >> ((k - base) / 2) & 1)) t.erase(k);
		}
		if(seen != want) {
			char b[160]; snprintf(b, sizeof b, "walk over slots %#x of a leaf%s, erasing the visited slots %#x on the way, visited %zu keys instead of %zu", present, with_far ? " + a later leaf" : "", erase, seen.size(), want.size());
			r.add_violation({"C09", "radix:iteration:erase-while-walking", b}, "filtering walk"); return r;
		}
	}
	pending().reset();
	r.samples.push_back("erase-while-iterating: 63 slot subsets x every subset of them erased when visited x {with, without} a later leaf");
	r.states = r.distinct; r.transitions = r.evaluations;
	return r;
}

// Deep and wide trees that the subset exploration (<= 3-4 keys) cannot build: (a) a path without any compression - sixteen
// keys that each share one more nibble with key 0, so that there is an inner node at every depth 0..14 above the leaf -
// inserted in ascending, descending and two interleaved orders; (b) sparse sets in which leaves hang several levels below
// their parent; (c) all sixteen slots of a leaf and of an inner node.  After every insert and every erase: find for every
// key of the set and for absent neighbours (one nibble changed at every position), iteration against the reference map.
static InstResult deep_trees() {
	InstResult r; r.name = "radix-deep-and-wide"; r.complete = true;
	using TT = frg::rcu_radixtree<uint64_t, BumpAlloc>;
	std::vector<std::vector<uint64_t>> sets;
	{ std::vector<uint64_t> a = {0}; for(int sh = 60; sh >= 4; sh -= 4) a.push_back(uint64_t(1) << sh); sets.push_back(a); }
	{ std::vector<uint64_t> a = {~uint64_t(0)}; for(int sh = 60; sh >= 4; sh -= 4) a.push_back(~uint64_t(0) ^ (uint64_t(0xF) << sh)); sets.push_back(a); }
	sets.push_back({0x5, 0x500, 0x1F0, 0x900, 0x90000, 0xF00000000ull, 0x123456789ABCDEFull, 0x8000000000000000ull, ~uint64_t(0)});
	{ std::vector<uint64_t> a; for(uint64_t i = 0; i < 16; i++) a.push_back(0x7000 + i); for(uint64_t i = 0; i < 16; i++) a.push_back(0x7000 + (i << 4) + 0xF); sets.push_back(a); }
	{ std::vector<uint64_t> a; for(uint64_t i = 0; i < 16; i++) a.push_back(i << 60 | 0xF); sets.push_back(a); }
	for(size_t si = 0; si < sets.size(); si++) for(int order = 0; order < 4; order++) {
		std::vector<uint64_t> ks = sets[si];
		std::sort(ks.begin(), ks.end()); ks.erase(std::unique(ks.begin(), ks.end()), ks.end());
		if(order == 1) std::reverse(ks.begin(), ks.end());
		if(order == 2) { std::vector<uint64_t> o; for(size_t i = 0; i < ks.size(); i += 2) o.push_back(ks[i]); for(size_t i = 1; i < ks.size(); i += 2) o.push_back(ks[i]); ks = o; }
		if(order == 3) { std::vector<uint64_t> o; for(size_t i = 0, j = ks.size(); i < j;) { o.push_back(ks[i++]); if(i < j) o.push_back(ks[--j]); } ks = o; }
		std::string h = "key set " + std::to_string(si) + ", insertion order " + std::to_string(order);
		try {
			world_reset(); arena_top = 0; pending().reset();
			TT t{BumpAlloc{}};
			std::map<uint64_t, uint64_t *> ref;
			auto check = [&](const std::string &when) {
				for(uint64_t k : sets[si]) {
					uint64_t *p = t.find(k); auto it = ref.find(k);
					if(it == ref.end() ? p != nullptr : p != it->second) { char b[128]; snprintf(b, sizeof b, "find(%llx) %s", (unsigned long long)k, it == ref.end() ? "finds an absent key" : p ? "returns another address than insert did" : "does not find a present key"); throw Violation{"C09", "radix:deep:find", when + ": " + b}; }
					if(p && *p != k) throw Violation{"C09", "radix:deep:value", when + ": the value found under a key is not the one stored there"};
					for(int sh = 0; sh < 64; sh += 4) { uint64_t n = k ^ (uint64_t(1) << sh); if(!ref.count(n) && t.find(n)) { char b[96]; snprintf(b, sizeof b, "find(%llx) finds a key that was never inserted", (unsigned long long)n); throw Violation{"C09", "radix:deep:find-absent", when + ": " + b}; } }
					r.evaluations++;
				}
				std::vector<uint64_t> seen; size_t guard = 0;
				for(auto it = t.begin(); it != t.end(); ++it) { if(++guard > ref.size() + 2) break; seen.push_back(*it); }
				std::vector<uint64_t> want; for(auto &kv : ref) want.push_back(kv.first);
				if(seen != want) throw Violation{"C09", "radix:deep:iteration", when + ": iteration visits " + std::to_string(seen.size()) + " keys (or not in ascending order), the reference holds " + std::to_string(want.size())};
			};
			for(uint64_t k : ks) { uint64_t *p = t.insert(k, k); ref[k] = p; char b[48]; snprintf(b, sizeof b, "after insert(%llx)", (unsigned long long)k); check(b); }
			for(size_t i = 0; i < ks.size(); i += 2) { t.erase(ks[i]); ref.erase(ks[i]); char b[48]; snprintf(b, sizeof b, "after erase(%llx)", (unsigned long long)ks[i]); check(b); }
			for(size_t i = 0; i < ks.size(); i += 4) { uint64_t *p = t.insert(ks[i], ks[i]); ref[ks[i]] = p; check("after re-insert"); }
			r.distinct++;
		} catch(const Violation &v) { r.add_violation(v, h); }
		catch(const Panic &p) { r.add_violation({"C09", "panic:radix:deep", p.text}, h); }
	}
	pending().reset();
	r.samples.push_back("full-depth paths (16 keys, 4 insertion orders), sparse sets, full leaves and full inner nodes: find / absent neighbours / iteration after every insert, erase and re-insert");
	r.states = r.distinct; r.transitions = r.evaluations;
	return r;
}

static std::vector<Instance> instances(const std::string &tier) {
	bool th = tier == "thorough";
	std::vector<std::vector<uint64_t>> subs;
	if(th) { subsets(alphabet(true), 3, 0, subs); subsets(alphabet(false), 4, 4, subs); }
	else subsets(alphabet(false), 3, 0, subs);
	int groups = th ? 96 : 32;
	std::vector<Instance> v;
	for(int g = 0; g < groups; g++) {
		std::vector<std::vector<uint64_t>> part;
		for(size_t i = g; i < subs.size(); i += groups) part.push_back(subs[i]);
		std::string name = "radix-g" + std::to_string(g);
		Instance inst; inst.name = name;
		inst.run = [=](const std::vector<CrashInfo> &cr) {
			InstResult total; total.name = name; total.fixpoint = true;
			for(auto &s : part) {
				std::string sub = name + "/";
				for(uint64_t k : s) { char b[24]; snprintf(b, sizeof b, "%llx.", (unsigned long long)k); sub += b; }
				// crash steps are recorded as "<sub>#codes | ..." so that each subset has its own skip list
				std::vector<CrashInfo> mine;
				for(auto &c : cr) if(c.step.rfind(sub + "#", 0) == 0) mine.push_back({c.step.substr(sub.size() + 1), c.how});
				slot_prefix() = sub + "#";
				RxHarness h(s);
				InstResult r = bfs(h, sub, BfsOptions{}, mine);
				for(auto &vv : r.violations) vv.instance = sub;
				merge(total, r);
				if(past_deadline()) { total.complete = false; total.cap = "deadline"; break; }
			}
			slot_prefix().clear();
			return total;
		};
		inst.replay = [](const std::string &) { return 3; };
		v.push_back(inst);
	}
	{ Instance e; e.name = "radix-erase-while-iterating"; e.run = [](const std::vector<CrashInfo> &) { return filtering_walk(); };
	  e.replay = [](const std::string &) { InstResult r = filtering_walk(); for(auto &x : r.violations) printf("REPLAY-VIOLATION property=%s sig=%s: %s\n", x.prop.c_str(), x.sig.c_str(), x.msg.c_str()); return (int)r.violations.size(); };
	  v.push_back(e); }
	{ Instance e; e.name = "radix-deep-and-wide"; e.run = [](const std::vector<CrashInfo> &) { return deep_trees(); };
	  e.replay = [](const std::string &) { InstResult r = deep_trees(); for(auto &x : r.violations) printf("REPLAY-VIOLATION property=%s sig=%s: %s\n", x.prop.c_str(), x.sig.c_str(), x.msg.c_str()); return (int)r.violations.size(); };
	  v.push_back(e); }
	{ Instance e; e.name = "radix-default-insert-trivial"; e.run = [](const std::vector<CrashInfo> &) { return default_insert(); };
	  e.replay = [](const std::string &) { InstResult r = default_insert(); for(auto &x : r.violations) printf("REPLAY-VIOLATION property=%s sig=%s: %s\n", x.prop.c_str(), x.sig.c_str(), x.msg.c_str()); return (int)r.violations.size(); };
	  v.push_back(e); }
	return v;
}
int main(int argc, char **argv) {
	if(argc >= 5 && std::string(argv[1]) == "replay") {
		std::string name = argv[3]; size_t sl = name.find('/');
		if(sl == std::string::npos) return 3;
		std::vector<uint64_t> s; std::string rest = name.substr(sl + 1); size_t p = 0;
		while(p < rest.size()) { size_t d = rest.find('.', p); if(d == std::string::npos) break; s.push_back(strtoull(rest.substr(p, d - p).c_str(), nullptr, 16)); p = d + 1; }
		RxHarness h(s); return replay(h, argv[4]) ? 1 : 0;
	}
	return harness_main(argc, argv, instances);
}
