// C12a: ticket_spinlock / simple_spinlock under the serialising scheduler: every __atomic builtin and
// the spin hint of spinlock.hpp is a scheduling point.  All interleavings up to the preemption bound
// (small harnesses: unbounded = every interleaving).
#include "../engine/vsched.hpp"
#define __atomic_fetch_add(p, v, m) ::verif::hook_fetch_add(p, v, m)
#define __atomic_load_n(p, m) ::verif::hook_load_n(p, m)
#define __atomic_store_n(p, v, m) ::verif::hook_store_n(p, v, m)
#define __atomic_exchange_n(p, v, m) ::verif::hook_exchange_n(p, v, m)
#define __atomic_fetch_sub(p, v, m) ::verif::hook_fetch_sub(p, v, m)
#define __atomic_fetch_or(p, v, m) ::verif::hook_fetch_or(p, v, m)
#define __atomic_fetch_and(p, v, m) ::verif::hook_fetch_and(p, v, m)
#define __atomic_compare_exchange_n(p, e, d, w, ms, mf) ::verif::hook_compare_exchange_n(p, e, d, w, ms, mf)
#define __atomic_test_and_set(p, m) ::verif::hook_test_and_set(p, m)
#define __atomic_clear(p, m) ::verif::hook_clear(p, m)
#define __builtin_ia32_pause() ::verif::hook_pause()
#include <frg/spinlock.hpp>
#undef __atomic_fetch_add
#undef __atomic_load_n
#undef __atomic_store_n
#undef __atomic_exchange_n
#undef __atomic_fetch_sub
#undef __atomic_fetch_or
#undef __atomic_fetch_and
#undef __atomic_compare_exchange_n
#undef __atomic_test_and_set
#undef __atomic_clear
#undef __builtin_ia32_pause

using namespace verif;

template<class Lock, bool Ticket>
struct SpinHarness {
	int T, R;
	alignas(64) unsigned char store[sizeof(Lock)];
	int in_cs = 0; long counter = 0;
	int entries[64]; int nentries = 0;
	bool wrap = false;   // start with every byte of the lock 0xFF: the ticket counters are about to wrap around
	SpinHarness(int t, int r, bool wrap_ = false) : T(t), R(r), wrap(wrap_) {}
	const char *prop() { return "C12"; }
	Lock &lock() { return *reinterpret_cast<Lock *>(store); }
	int nthreads() { return T; }
	void setup() { memset(store, 0xA5, sizeof store); new(store) Lock; if(wrap) memset(store, 0xFF, sizeof(Lock)); in_cs = 0; counter = 0; nentries = 0; }
	void body(int tid) {
		for(int r = 0; r < R; r++) {
			lock().lock();
			if(in_cs) vs_fail("C12", "spinlock:mutual-exclusion", "two threads are inside the critical section");
			if(!hb_before("cs-exit")) vs_fail("C12", "spinlock:no-happens-before", "the previous holder's critical section does not happen-before this one (acquire/release pairing broken)");
			in_cs = 1;
			counter = counter + 1;
			entries[nentries++] = tid;
			// (is_locked() compares the two counters with <, which is not meaningful across the wrap and not part of C12)
			if(!wrap && !lock().is_locked()) vs_fail("C12", "spinlock:is_locked-false-inside", "is_locked() is false while the lock is held");
			in_cs = 0;
			hb_mark("cs-exit");
			lock().unlock();
		}
	}
	void finish() {
		if(counter != (long)T * R) throw Violation{"C12", "spinlock:lost-update", "final counter " + std::to_string(counter) + " != " + std::to_string(T * R)};
		if(!wrap && lock().is_locked()) throw Violation{"C12", "spinlock:left-locked", "lock still held after every thread unlocked"};
		if(Ticket) {
			// grants follow ticket order: the order of the fetch_adds on the ticket word
			// (only read-modify-writes on the ticket word count: the word the first RMW of the execution touches)
			int k = 0; const void *ticket_word = nullptr;
			for(int i = 0; i < vs_tr.npoints && !ticket_word; i++) if(vs_tr.pts[i].kind == VS_RMW) ticket_word = vs_tr.pts[i].addr;
			for(int i = 0; i < vs_tr.npoints; i++) if(vs_tr.pts[i].kind == VS_RMW && vs_tr.pts[i].addr == ticket_word) {
				if(k >= nentries || entries[k] != vs_tr.pts[i].tid) throw Violation{"C12", "ticket:order", "critical sections were not entered in ticket order"};
				k++;
			}
			if(k != nentries) throw Violation{"C12", "ticket:order", "number of tickets differs from number of grants"};
		}
	}
	std::string outcome() { std::string s; for(int i = 0; i < nentries; i++) s += char('0' + entries[i]); return s; }
};

static std::vector<Instance> instances(const std::string &tier) {
	bool th = tier == "thorough";
	std::vector<Instance> v;
	SchedOptions full; full.bound = 1000;     // no preemption bound: every interleaving
	SchedOptions b3; b3.bound = 3;
	SchedOptions b2; b2.bound = 2;
	SchedOptions b5; b5.bound = 5; SchedOptions b7; b7.bound = 7;
	using TH = SpinHarness<frg::ticket_spinlock, true>; using SH = SpinHarness<frg::simple_spinlock, false>;
	v.push_back(sched_instance<TH>("ticket-2x1-all", full, 2, 1));
	v.push_back(sched_instance<SH>("simple-2x1-all", full, 2, 1));
	// the same at the wrap-around of the 32-bit ticket counters (both start at 0xFFFFFFFF)
	v.push_back(sched_instance<TH>("ticket-2x1-wrap-all", full, 2, 1, true));
	v.push_back(sched_instance<TH>(th ? "ticket-2x2-wrap-b5" : "ticket-2x2-wrap-b3", th ? b5 : b3, 2, 2, true));
	if(const char *e = getenv("VERIF_SPIN_BOUND")) { SchedOptions o; o.bound = atoi(e); v.push_back(sched_instance<TH>("ticket-2x2-test", o, 2, 2)); }
	v.push_back(sched_instance<TH>(th ? "ticket-2x2-b7" : "ticket-2x2-b5", th ? b7 : b5, 2, 2));   // all interleavings would be 1.9 million schedules
	v.push_back(sched_instance<SH>("simple-2x2-all", full, 2, 2));     // 27 380 schedules
	v.push_back(sched_instance<TH>("ticket-3x1-b" + std::to_string(th ? 3 : 2), th ? b3 : b2, 3, 1));
	v.push_back(sched_instance<SH>("simple-3x1-b" + std::to_string(th ? 3 : 2), th ? b3 : b2, 3, 1));
	SchedOptions b1; b1.bound = 1;
	// (four threads on the ticket lock at bound 2 take > 25 min under ThreadSanitizer: the TSan build explores bound 1, the ASan + vector-clock build bound 2)
	if(th) { if(VERIF_TSAN) v.push_back(sched_instance<TH>("ticket-4x1-b1", b1, 4, 1)); else v.push_back(sched_instance<TH>("ticket-4x1-b2", b2, 4, 1)); v.push_back(sched_instance<SH>("simple-4x1-b2", b2, 4, 1)); v.push_back(sched_instance<TH>("ticket-3x2-b2", b2, 3, 2)); }
	return v;
}
int main(int argc, char **argv) { return harness_main(argc, argv, instances); }
