// C13 (behaviour) + C16 (lifetimes / allocation pairing) for frg::vector, frg::small_vector,
// frg::dyn_array, frg::stack, frg::list.  Two slots of each container so that copy / move /
// assign / swap see every combination of source and destination state.  Reference: std::vector<int>.
#include "../engine/seqmc.hpp"
#include "../engine/world.hpp"
#include <frg/vector.hpp>
#include <frg/small_vector.hpp>
#include <frg/dyn_array.hpp>
#include <frg/stack.hpp>
#include <frg/list.hpp>
#include <vector>
#include <new>

using namespace verif;

enum Kind : uint32_t { PUSH_COPY, PUSH_MOVE, EMPLACE, POP, RESIZE, RESIZE_V, CLEAR, COPY_CONS, MOVE_CONS, COPY_ASSIGN, MOVE_ASSIGN, SWAP, SELF_ASSIGN, DETACH, NKINDS };
static const char *kind_name[] = {"push_copy", "push_move", "emplace_back", "pop", "resize", "resize_fill", "clear", "copy_construct", "move_construct", "copy_assign", "move_assign", "swap", "self_assign", "detach"};

static inline uint32_t mkop(uint32_t k, uint32_t a, uint32_t v = 0, uint32_t n = 0) { return k | a << 8 | v << 12 | n << 16; }

// --------------------------------------------------------------------------------------------
// Adapters
template<class E> struct VecA {
	using V = frg::vector<E, TrackAlloc>;
	static const char *name() { return "vector"; }
	static bool supports(uint32_t k) { return true; }
	static constexpr size_t inline_cap = 0;
	static void pop(V &v, int expect) { E x = v.pop(); if(val(x) != expect) throw Violation{"C13", "vector.pop:value", "pop() returned the wrong element"}; }
	// value 1 goes through push(), value 2 through the push_back() spelling
	static void push_copy(V &v, const E &e) { E &r = val(e) == 1 ? v.push(e) : v.push_back(e); if(&r != &v.back()) throw Violation{"C13", "vector.push:ref", "push returned a reference that is not back()"}; }
	static void push_move(V &v, E &&e) { E &r = val(e) == 1 ? v.push(std::move(e)) : v.push_back(std::move(e)); if(&r != &v.back()) throw Violation{"C13", "vector.push:ref", "push(T&&) returned a reference that is not back()"}; }
	static constexpr bool has_eq = true, has_frontback = true, has_data = true;
};
template<class E, size_t N> struct SmallA {
	using V = frg::small_vector<E, N, TrackAlloc>;
	static const char *name() { return "small_vector"; }
	static bool supports(uint32_t k) { return k != CLEAR && k != COPY_ASSIGN && k != MOVE_ASSIGN && k != SELF_ASSIGN && k != DETACH; }
	static constexpr size_t inline_cap = N;
	static void pop(V &v, int) { v.pop_back(); }
	static void push_copy(V &v, const E &e) { E &r = v.push_back(e); if(&r != &v.back()) throw Violation{"C13", "small_vector.push:ref", "push_back returned a reference that is not back()"}; }
	static void push_move(V &v, E &&e) { v.push_back(std::move(e)); }
	static constexpr bool has_eq = false, has_frontback = true, has_data = true;
};

template<class A, class E>
struct SeqHarness : HarnessBase {
	using V = typename A::V;
	int cap_size;        // sizes above this are not generated
	alignas(16) unsigned char store[2][sizeof(V)];
	bool alive[2] = {false, false};
	std::vector<int> ref[2];

	SeqHarness(int cap) : cap_size(cap) {}
	~SeqHarness() { }
	const char *prop() const { return wanted_prop() == "C16" ? "C16" : "C13"; }   // C16 runs this harness too: a crash, sanitizer report or assertion then counts for it
	V &s(int a) { return *reinterpret_cast<V *>(store[a]); }

	void reset() {
		world_reset();
		for(int a = 0; a < 2; a++) { memset(store[a], 0xA5, sizeof(V)); new(store[a]) V(TrackAlloc{}); alive[a] = true; ref[a].clear(); }
	}
	// capacity proxy, observed at the allocator seam: number of elements the current heap block holds
	// (0 = no heap block, i.e. empty or inline)
	size_t capproxy(int a) {
		const void *d = s(a).data();
		size_t bs = heap().size_of((void *)d);
		return bs == (size_t)-1 ? 0 : bs / sizeof(E);
	}
	void ops(std::vector<uint32_t> &out) {
		for(uint32_t a = 0; a < 2; a++) {
			size_t sz = ref[a].size();
			size_t cp = capproxy(a);
			if(cp == 0) cp = A::inline_cap;
			if((int)sz < cap_size) {
				for(uint32_t v = 1; v <= 2; v++) { out.push_back(mkop(PUSH_COPY, a, v)); }
				out.push_back(mkop(PUSH_MOVE, a, 1)); out.push_back(mkop(PUSH_MOVE, a, 2));
				out.push_back(mkop(EMPLACE, a, 2)); out.push_back(mkop(EMPLACE, a, 1));
			}
			if(sz) out.push_back(mkop(POP, a));
			std::set<size_t> targets = {0, sz ? sz - 1 : 0, sz + 1, cp, cp + 1, 2 * cp + 1};
			for(size_t n : targets) if(n != sz && (int)n <= cap_size) {
				out.push_back(mkop(RESIZE, a, 0, (uint32_t)n));
				if(n > sz) out.push_back(mkop(RESIZE_V, a, 2, (uint32_t)n));
			}
			if(A::supports(CLEAR) && sz) out.push_back(mkop(CLEAR, a));
			if(A::supports(DETACH)) out.push_back(mkop(DETACH, a));
			out.push_back(mkop(COPY_CONS, a));
			out.push_back(mkop(MOVE_CONS, a));
			if(A::supports(COPY_ASSIGN)) { out.push_back(mkop(COPY_ASSIGN, a)); out.push_back(mkop(MOVE_ASSIGN, a)); out.push_back(mkop(SELF_ASSIGN, a)); }
		}
		out.push_back(mkop(SWAP, 0));
	}
	std::string show_class(uint32_t op) { return std::string(A::name()) + "." + kind_name[op & 0xff]; }
	std::string show(uint32_t op) {
		char b[96]; snprintf(b, sizeof b, "%s(slot%u,v=%u,n=%u)", kind_name[op & 0xff], (op >> 8) & 0xf, (op >> 12) & 0xf, op >> 16);
		return b;
	}
	void apply(uint32_t op) {
		uint32_t k = op & 0xff, a = (op >> 8) & 0xf, v = (op >> 12) & 0xf, n = op >> 16;
		uint32_t b = 1 - a;
		switch(k) {
		case PUSH_COPY: { E e(v); A::push_copy(s(a), e); ref[a].push_back(v); break; }
		case PUSH_MOVE: { E e(v); A::push_move(s(a), std::move(e)); ref[a].push_back(v); break; }
		case EMPLACE: {
			if(v & 1) {   // from the constructor argument ...
				E &r = s(a).emplace_back((int)v); ref[a].push_back(v); if(val(r) != (int)v) throw Violation{"C13", show_class(op) + ":ref", "emplace_back returned a wrong reference"};
			} else if constexpr(std::is_copy_constructible_v<E>) {   // ... and from an lvalue of the element type: a copy, the caller's object keeps its value
				E e(v); E &r = s(a).emplace_back(e); ref[a].push_back(v);
				if(val(r) != (int)v || &r != &s(a)[s(a).size() - 1]) throw Violation{"C13", show_class(op) + ":ref", "emplace_back returned a wrong reference"};
				if(val(e) != (int)v) throw Violation{"C13", show_class(op) + ":lvalue-argument", "emplace_back(lvalue) changed the caller's object (it was moved from instead of copied)"};
			} else { E &r = s(a).emplace_back((int)v); ref[a].push_back(v); (void)r; }
			break; }
		case POP: { A::pop(s(a), ref[a].back()); ref[a].pop_back(); break; }
		case RESIZE: { s(a).resize(n); ref[a].resize(n, 0); break; }
		case RESIZE_V: { E e(v); s(a).resize(n, e); ref[a].resize(n, v); break; }
		case CLEAR: if constexpr(requires(V &x) { x.clear(); }) { s(a).clear(); } ref[a].clear(); break;
		case COPY_CONS: { s(a).~V(); alive[a] = false; new(store[a]) V(s(b)); alive[a] = true; ref[a] = ref[b]; break; }
		case MOVE_CONS: {
			s(a).~V(); alive[a] = false; new(store[a]) V(std::move(s(b))); alive[a] = true; ref[a] = ref[b];
			// the moved-from source is only destroyed and re-created (its value is unspecified)
			s(b).~V(); alive[b] = false; new(store[b]) V(TrackAlloc{}); alive[b] = true; ref[b].clear();
			break;
		}
		case COPY_ASSIGN: if constexpr(std::is_copy_assignable_v<V>) { s(a) = s(b); } ref[a] = ref[b]; break;
		case SELF_ASSIGN: if constexpr(std::is_copy_assignable_v<V>) { V &x = s(a); s(a) = x; } break;
		case MOVE_ASSIGN: if constexpr(std::is_move_assignable_v<V>) {
			s(a) = std::move(s(b)); ref[a] = ref[b];
			s(b).~V(); alive[b] = false; new(store[b]) V(TrackAlloc{}); alive[b] = true; ref[b].clear();
		} break;
		case SWAP: { using std::swap; swap(s(0), s(1)); std::swap(ref[0], ref[1]); break; }
		case DETACH: if constexpr(requires(V &x) { x.detach(); }) {
			// detach() hands the buffer and its elements to the caller, who destroys and frees them; the vector is empty and usable
			E *p = s(a).data(); size_t n = s(a).size();
			s(a).detach();
			if(s(a).size() != 0 || s(a).data() != nullptr) throw Violation{"C13", "vector.detach:state", "a detached vector is not empty"};
			for(size_t i = 0; i < n; i++) { if(val(p[i]) != ref[a][i]) throw Violation{"C13", "vector.detach:contents", "the detached buffer does not hold the elements"}; p[i].~E(); }
			if(p) TrackAlloc{}.free(p);
			ref[a].clear();
		} break;
		}
	}
	void check_state() {
		for(int a = 0; a < 2; a++) {
			V &x = s(a); const V &cx = x;
			auto &r = ref[a];
			std::string N = A::name();
			if(x.size() != r.size()) throw Violation{"C13", N + ":size", "size() = " + std::to_string(x.size()) + ", reference " + std::to_string(r.size())};
			if(x.empty() != r.empty()) throw Violation{"C13", N + ":empty", "empty() disagrees with the reference"};
			for(size_t i = 0; i < r.size(); i++) {
				if(val(x[i]) != r[i] || val(cx[i]) != r[i]) throw Violation{"C13", N + ":index", "operator[](" + std::to_string(i) + ") differs from the reference"};
				if(val(x.data()[i]) != r[i]) throw Violation{"C13", N + ":data", "data()[i] differs from the reference"};
			}
			size_t i = 0;
			for(auto it = x.begin(); it != x.end(); ++it, ++i) {
				if(i >= r.size() || val(*it) != r[i]) throw Violation{"C13", N + ":iteration", "begin()..end() differs from the reference"};
			}
			if(i != r.size()) throw Violation{"C13", N + ":iteration", "begin()..end() yields the wrong number of elements"};
			if(cx.end() - cx.begin() != (ptrdiff_t)r.size()) throw Violation{"C13", N + ":iteration", "const begin()..end() has the wrong length"};
			if(!r.empty()) {
				if(val(x.front()) != r.front() || &x.front() != &x[0]) throw Violation{"C13", N + ":front", "front() is not the first element"};
				if(val(x.back()) != r.back() || &x.back() != &x[r.size() - 1]) throw Violation{"C13", N + ":back", "back() is not the last element"};
				if(&cx.front() != &x[0] || &cx.back() != &x[r.size() - 1]) throw Violation{"C13", N + ":const-front-back", "const front()/back() designate other objects than the non-const ones"};
			}
			if(cx.data() != x.data() || cx.begin() != x.begin()) throw Violation{"C13", N + ":const-data", "const data()/begin() differ from the non-const ones"};
		}
		if constexpr(A::has_eq) {
			bool eq = ref[0] == ref[1];
			if((s(0) == s(1)) != eq || (s(1) == s(0)) != eq) throw Violation{"C13", std::string(A::name()) + ":operator==", "operator== disagrees with the reference"};
			if((s(0) != s(1)) == eq) throw Violation{"C13", std::string(A::name()) + ":operator!=", "operator!= disagrees with the reference"};
		}
		if(res) res->outcomes.insert("sizes=" + std::to_string(ref[0].size()) + "," + std::to_string(ref[1].size()) + " caps=" + std::to_string(capproxy(0)) + "," + std::to_string(capproxy(1)));
	}
	void final_check() {
		for(int a = 0; a < 2; a++) if(alive[a]) { s(a).~V(); alive[a] = false; }
		raise_pending();
		world_check_empty(A::name());
	}
	void canon(std::string &out) {
		world_canon(out);
		GraphCanon g; for(int a = 0; a < 2; a++) if(alive[a]) g.root(store[a], sizeof(V));
		g.emit(out);
		for(int a = 0; a < 2; a++) { out.push_back((char)ref[a].size()); for(int x : ref[a]) out.push_back((char)x); out.push_back('|'); }
	}
};

// --------------------------------------------------------------------------------------------
// dyn_array: fixed size at construction
template<class E>
struct DynHarness : HarnessBase {
	using V = frg::dyn_array<E, TrackAlloc>;
	alignas(16) unsigned char store[2][sizeof(V)];
	bool alive[2] = {false, false};
	std::vector<int> ref[2];
	const char *prop() const { return wanted_prop() == "C16" ? "C16" : "C13"; }   // C16 runs this harness too: a crash, sanitizer report or assertion then counts for it
	V &s(int a) { return *reinterpret_cast<V *>(store[a]); }
	void reset() {
		world_reset();
		for(int a = 0; a < 2; a++) { memset(store[a], 0xA5, sizeof(V)); new(store[a]) V; alive[a] = true; ref[a].clear(); }
	}
	enum { D_SIZED, D_DEFAULT, D_ALLOC, D_COPY, D_MOVE, D_ASSIGN, D_MASSIGN, D_SWAP, D_SET, D_SELF };
	void ops(std::vector<uint32_t> &out) {
		for(uint32_t a = 0; a < 2; a++) {
			for(uint32_t n = 0; n <= 3; n++) out.push_back(mkop(D_SIZED, a, 0, n));
			out.push_back(mkop(D_DEFAULT, a)); out.push_back(mkop(D_ALLOC, a));
			out.push_back(mkop(D_COPY, a)); out.push_back(mkop(D_MOVE, a)); out.push_back(mkop(D_ASSIGN, a)); out.push_back(mkop(D_MASSIGN, a));
			out.push_back(mkop(D_SELF, a));
			for(uint32_t i = 0; i < ref[a].size(); i++) for(uint32_t v = 1; v <= 2; v++) if(ref[a][i] != (int)v) out.push_back(mkop(D_SET, a, v, i));
		}
		out.push_back(mkop(D_SWAP, 0));
	}
	std::string show_class(uint32_t op) {
		static const char *nm[] = {"ctor(n)", "ctor()", "ctor(alloc)", "copy_construct", "move_construct", "copy_assign", "move_assign", "swap", "set", "self_assign"};
		return std::string("dyn_array.") + nm[op & 0xff];
	}
	std::string show(uint32_t op) { char b[96]; snprintf(b, sizeof b, "%s(slot%u,v=%u,n=%u)", show_class(op).c_str(), (op >> 8) & 0xf, (op >> 12) & 0xf, op >> 16); return b; }
	void recreate_empty(int b) { s(b).~V(); alive[b] = false; new(store[b]) V(); alive[b] = true; ref[b].clear(); }
	void apply(uint32_t op) {
		uint32_t k = op & 0xff, a = (op >> 8) & 0xf, v = (op >> 12) & 0xf, n = op >> 16, b = 1 - a;
		switch(k) {
		case D_SIZED: s(a).~V(); alive[a] = false; new(store[a]) V((size_t)n, TrackAlloc{}); alive[a] = true; ref[a].assign(n, 0); break;
		case D_DEFAULT: s(a).~V(); alive[a] = false; new(store[a]) V(); alive[a] = true; ref[a].clear(); break;
		case D_ALLOC: s(a).~V(); alive[a] = false; new(store[a]) V(TrackAlloc{}); alive[a] = true; ref[a].clear(); break;
		case D_COPY: s(a).~V(); alive[a] = false; new(store[a]) V(s(b)); alive[a] = true; ref[a] = ref[b]; break;
		case D_MOVE: s(a).~V(); alive[a] = false; new(store[a]) V(std::move(s(b))); alive[a] = true; ref[a] = ref[b]; recreate_empty(b); break;
		case D_ASSIGN: s(a) = s(b); ref[a] = ref[b]; break;
		case D_SELF: { V &x = s(a); s(a) = x; break; }
		case D_MASSIGN: s(a) = std::move(s(b)); ref[a] = ref[b]; recreate_empty(b); break;
		case D_SWAP: { using std::swap; swap(s(0), s(1)); std::swap(ref[0], ref[1]); break; }
		case D_SET: s(a)[n] = E((int)v); ref[a][n] = v; break;
		}
	}
	void check_state() {
		for(int a = 0; a < 2; a++) {
			V &x = s(a); const V &cx = x; auto &r = ref[a];
			if(x.size() != r.size()) throw Violation{"C13", "dyn_array:size", "size() differs from the reference"};
			if(x.empty() != r.empty()) throw Violation{"C13", "dyn_array:empty", "empty() = " + std::to_string(x.empty()) + " for a dyn_array of size " + std::to_string(r.size())};
			size_t i = 0;
			for(auto it = x.begin(); it != x.end(); ++it, ++i) if(i >= r.size() || val(*it) != r[i]) throw Violation{"C13", "dyn_array:iteration", "iteration differs from the reference"};
			if(i != r.size()) throw Violation{"C13", "dyn_array:iteration", "iteration yields the wrong number of elements"};
			for(i = 0; i < r.size(); i++) if(val(x[i]) != r[i] || val(cx[i]) != r[i] || val(x.data()[i]) != r[i]) throw Violation{"C13", "dyn_array:index", "operator[] differs from the reference"};
		}
		if(res) res->outcomes.insert("sizes=" + std::to_string(ref[0].size()) + "," + std::to_string(ref[1].size()));
	}
	void final_check() {
		for(int a = 0; a < 2; a++) if(alive[a]) { s(a).~V(); alive[a] = false; }
		raise_pending();
		world_check_empty("dyn_array");
	}
	void canon(std::string &out) {
		world_canon(out);
		GraphCanon g; for(int a = 0; a < 2; a++) if(alive[a]) g.root(store[a], sizeof(V));
		g.emit(out);
		for(int a = 0; a < 2; a++) { out.push_back((char)ref[a].size()); for(int x : ref[a]) out.push_back((char)x); out.push_back('|'); }
	}
};

// --------------------------------------------------------------------------------------------
// stack and list: single slot
template<class E>
struct StackHarness : HarnessBase {
	using V = frg::stack<E, TrackAlloc>;
	alignas(16) unsigned char store[sizeof(V)];
	bool alive = false; int cap;
	std::vector<int> ref;
	StackHarness(int c) : cap(c) {}
	const char *prop() const { return wanted_prop() == "C16" ? "C16" : "C13"; }   // C16 runs this harness too: a crash, sanitizer report or assertion then counts for it
	V &s() { return *reinterpret_cast<V *>(store); }
	void reset() { world_reset(); memset(store, 0xA5, sizeof store); new(store) V(TrackAlloc{}); alive = true; ref.clear(); }
	void ops(std::vector<uint32_t> &out) {
		if((int)ref.size() < cap) { out.push_back(mkop(0, 0, 1)); out.push_back(mkop(0, 0, 2)); out.push_back(mkop(1, 0, 1)); out.push_back(mkop(1, 0, 2)); }
		if(!ref.empty()) out.push_back(mkop(2, 0));
	}
	std::string show_class(uint32_t op) { static const char *nm[] = {"push", "emplace", "pop"}; return std::string("stack.") + nm[op & 0xff]; }
	std::string show(uint32_t op) { return show_class(op) + "(" + std::to_string((op >> 12) & 0xf) + ")"; }
	void apply(uint32_t op) {
		uint32_t k = op & 0xff, v = (op >> 12) & 0xf;
		if(k == 0) { E e((int)v); s().push(e); ref.push_back(v); }
		else if(k == 1) { s().emplace((int)v); ref.push_back(v); }
		else { s().pop(); ref.pop_back(); }
	}
	void check_state() {
		if(s().size() != ref.size()) throw Violation{"C13", "stack:size", "size() differs from the reference"};
		if(s().empty() != ref.empty()) throw Violation{"C13", "stack:empty", "empty() differs from the reference"};
		if(!ref.empty() && val(s().top()) != ref.back()) throw Violation{"C13", "stack:top", "top() is not the last pushed element"};
		if(res) res->outcomes.insert("size=" + std::to_string(ref.size()));
	}
	void final_check() { if(alive) { s().~V(); alive = false; } raise_pending(); world_check_empty("stack"); }
	void canon(std::string &out) { world_canon(out); GraphCanon g; if(alive) g.root(store, sizeof(V)); g.emit(out); out.push_back((char)ref.size()); for(int x : ref) out.push_back((char)x); }
};

template<class E>
struct ListHarness : HarnessBase {
	using V = frg::list<E, TrackAlloc>;
	alignas(16) unsigned char store[sizeof(V)];
	bool alive = false; int cap;
	std::vector<int> ref;
	ListHarness(int c) : cap(c) {}
	const char *prop() const { return wanted_prop() == "C16" ? "C16" : "C13"; }   // C16 runs this harness too: a crash, sanitizer report or assertion then counts for it
	V &s() { return *reinterpret_cast<V *>(store); }
	void reset() { world_reset(); memset(store, 0xA5, sizeof store); new(store) V(TrackAlloc{}); alive = true; ref.clear(); }
	void ops(std::vector<uint32_t> &out) {
		if((int)ref.size() < cap) { out.push_back(mkop(0, 0, 1)); out.push_back(mkop(0, 0, 2)); }
		if(!ref.empty()) out.push_back(mkop(1, 0));
	}
	std::string show_class(uint32_t op) { return (op & 0xff) ? "list.pop_front" : "list.emplace_back"; }
	std::string show(uint32_t op) { return show_class(op) + "(" + std::to_string((op >> 12) & 0xf) + ")"; }
	void apply(uint32_t op) {
		uint32_t k = op & 0xff, v = (op >> 12) & 0xf;
		if(k == 0) { s().emplace_back((int)v); ref.push_back(v); }
		else { s().pop_front(); ref.erase(ref.begin()); }
	}
	void check_state() {
		if(s().empty() != ref.empty()) throw Violation{"C13", "list:empty", "empty() differs from the reference"};
		if(!ref.empty() && val(s().front()) != ref.front()) throw Violation{"C13", "list:front", "front() is not the oldest element"};
		if(res) res->outcomes.insert("size=" + std::to_string(ref.size()));
	}
	// black-box contents check by draining, then destruction of a NON-EMPTY list (rebuilt afterwards)
	void final_check() {
		if(!alive) return;
		// drain half of it through the API, comparing order
		size_t k = ref.size() / 2;
		for(size_t i = 0; i < k; i++) {
			if(s().empty()) throw Violation{"C13", "list:lost-elements", "list ran empty while the reference still has elements"};
			if(val(s().front()) != ref[i]) throw Violation{"C13", "list:order", "pop_front order differs from insertion order"};
			s().pop_front();
		}
		raise_pending();
		s().~V(); alive = false;
		raise_pending();
		world_check_empty("list(destroyed non-empty)");
	}
	void canon(std::string &out) { world_canon(out); GraphCanon g; if(alive) g.root(store, sizeof(V)); g.emit(out); out.push_back((char)ref.size()); for(int x : ref) out.push_back((char)x); }
};

template<class H, class... Args>
static Instance inst(const std::string &name, int depth, Args... args) {
	BfsOptions o; o.max_depth = depth;
	return bfs_instance<H>(name, o, args...);
}

// Element types whose == is not bytewise equality: signed zeros and NaN, a key whose equality is coarser than its
// bytes, a struct with padding.  vector's == / != must agree with the element-wise comparison of std::vector for
// every pair of sequences up to length 2 over the value sets (and swap/copy must keep comparing the same).
struct CoarseKey { int id; int tag; bool operator==(const CoarseKey &o) const { return id == o.id; } bool operator!=(const CoarseKey &o) const { return id != o.id; } };
struct Padded { char c; long long v; bool operator==(const Padded &o) const { return c == o.c && v == o.v; } bool operator!=(const Padded &o) const { return !(*this == o); } };
template<class E, class Mk> static void equality_pairs(InstResult &r, const char *what, size_t nvals, Mk mk) {
	std::vector<std::vector<size_t>> seqs = {{}};
	for(size_t a = 0; a < nvals; a++) { seqs.push_back({a}); for(size_t b = 0; b < nvals; b++) seqs.push_back({a, b}); }
	for(auto &x : seqs) for(auto &y : seqs) {
		r.evaluations++; r.distinct++;
		frg::vector<E, TrackAlloc> fx{TrackAlloc{}}, fy{TrackAlloc{}}; std::vector<E> sx, sy;
		for(size_t i : x) { fx.push(mk(i, 0)); sx.push_back(mk(i, 0)); }
		for(size_t i : y) { fy.push(mk(i, 1)); sy.push_back(mk(i, 1)); }
		bool want = sx == sy;
		if((fx == fy) != want || (fx != fy) == want) { r.add_violation({"C13", std::string("vector:operator==:") + what, std::string("vector<") + what + "> == disagrees with the element-wise comparison of the reference sequences"}, what); return; }
	}
}
static InstResult vector_equality() {
	InstResult r; r.name = "vector-equality-nonbytewise"; r.complete = true;
	world_reset();
	const double dv[] = {0.0, -0.0, __builtin_nan(""), 1.5};
	equality_pairs<double>(r, "double", 4, [&](size_t i, int) { return dv[i]; });
	const float fv[] = {0.0f, -0.0f, __builtin_nanf(""), 2.5f};
	equality_pairs<float>(r, "float", 4, [&](size_t i, int) { return fv[i]; });
	equality_pairs<CoarseKey>(r, "key-with-coarser-equality", 3, [&](size_t i, int side) { return CoarseKey{(int)i, side * 17}; });
	equality_pairs<Padded>(r, "padded-struct", 3, [&](size_t i, int side) { Padded p; memset(&p, side ? 0xEE : 0x11, sizeof p); p.c = (char)i; p.v = (long long)i * 3; return p; });
	try { raise_pending(); world_check_empty("vector-equality"); } catch(const Violation &v) { r.add_violation(v, "vector-equality"); }
	r.samples.push_back("vector<double|float|coarse key|padded struct>: == and != for every pair of sequences of length <= 2 over 3-4 values incl. +0/-0/NaN, differing tags, differing padding bytes");
	r.states = r.distinct; r.transitions = r.evaluations;
	return r;
}

static std::vector<Instance> mk(const std::string &tier) {
	bool th = tier == "thorough";
	std::vector<Instance> v;
	// (size cap, depth)
	v.push_back(inst<SeqHarness<VecA<int>, int>>("vector-int", th ? 7 : 5, th ? 15 : 7));
	v.push_back(inst<SeqHarness<VecA<Tracked>, Tracked>>("vector-tracked", th ? 7 : 5, th ? 15 : 7));
	v.push_back(inst<SeqHarness<SmallA<int, 2>, int>>("small_vector2-int", th ? 7 : 5, th ? 11 : 7));
	v.push_back(inst<SeqHarness<SmallA<Tracked, 2>, Tracked>>("small_vector2-tracked", th ? 7 : 5, th ? 11 : 7));
	v.push_back(inst<SeqHarness<SmallA<Tracked, 4>, Tracked>>("small_vector4-tracked", th ? 6 : 5, th ? 11 : 9));
	v.push_back(inst<DynHarness<int>>("dyn_array-int", th ? 5 : 4));
	v.push_back(inst<DynHarness<Tracked>>("dyn_array-tracked", th ? 5 : 4));
	v.push_back(inst<StackHarness<Tracked>>("stack-tracked", th ? 16 : 10, th ? 8 : 7));
	v.push_back(inst<ListHarness<Tracked>>("list-tracked", th ? 14 : 9, th ? 6 : 4));
	{ Instance e; e.name = "vector-equality-nonbytewise"; e.run = [](const std::vector<CrashInfo> &) { return vector_equality(); };
	  e.replay = [](const std::string &) { InstResult r = vector_equality(); for(auto &x : r.violations) printf("REPLAY-VIOLATION property=%s sig=%s: %s\n", x.prop.c_str(), x.sig.c_str(), x.msg.c_str()); return (int)r.violations.size(); };
	  v.push_back(e); }
	return v;
}
int main(int argc, char **argv) { return harness_main(argc, argv, mk); }
