// C15 (+C16, C20): frg::basic_string / basic_string_view against std::string, exhaustively over all
// strings of length <= 4 over {a, b, NUL} (121 strings; all 14 641 pairs), with source data placed in
// exact-size buffers that end at an inaccessible page, and heap data in exact-size ASan blocks.
#include "../engine/enumerate.hpp"
#include "../engine/world.hpp"
#include <frg/string.hpp>
#include <string>
#include <string_view>
#include <climits>

using namespace verif;
// a crash or sanitizer report inside a string operation counts for the property being checked (C16 runs this harness too:
// a read from a block that was already given back is its matter as much as C15's)
static std::string crash_prop() { return wanted_prop() == "C16" ? "C16" : "C15"; }
using Str = frg::basic_string<char, TrackAlloc>;
using View = frg::basic_string_view<char>;

static std::vector<std::string> all_strings(size_t maxlen) {
	std::vector<std::string> v;
	for_all_strings(std::string("ab\0", 3), maxlen, [&](const std::string &s) { v.push_back(s); });
	return v;
}
static std::string as_std(const Str &s) { return s.data() ? std::string(s.data(), s.size()) : std::string(); }
static void check_owned(const Str &s, const std::string &want, const char *what) {
	EXPECT(s.size() == want.size(), "C15", std::string("string:") + what + ":size", std::string(what) + ": size() = " + std::to_string(s.size()) + ", expected " + std::to_string(want.size()));
	EXPECT(as_std(s) == want, "C15", std::string("string:") + what + ":contents", std::string(what) + ": contents differ from the reference");
	if(s.data()) EXPECT(s.data()[s.size()] == 0, "C15", std::string("string:") + what + ":terminator", std::string(what) + ": data()[size()] != 0");
	EXPECT(s.empty() == want.empty(), "C15", std::string("string:") + what + ":empty", "empty() wrong");
	if(s.data()) {
		size_t bs = heap().size_of((void *)s.data());
		EXPECT(bs != (size_t)-1 && bs >= want.size() + 1, "C15", std::string("string:") + what + ":buffer", std::string(what) + ": the owned buffer is smaller than size()+1");
	}
}
static int sgn(int x) { return (x > 0) - (x < 0); }

static InstResult run_unary(const std::vector<CrashInfo> &cr, size_t maxlen) {
	Enumerator E("strings-unary", crash_prop(), cr);
	GuardBuf g1, g2;
	for(auto &s : all_strings(maxlen)) {
		std::string key = printable(s);
		E.eval("ctor " + key, "string.construct", [&] {
			world_reset();
			{
				const char *raw = g1.place(s.data(), s.size());
				Str a(raw, s.size(), TrackAlloc{});                       // (ptr, len)
				check_owned(a, s, "ctor(ptr,len)");
				View v(raw, s.size());
				EXPECT(v.size() == s.size() && v.data() == raw, "C15", "view:ctor", "view(ptr,len) wrong");
				Str b(v, TrackAlloc{});                                      // from view: must not read past the view
				check_owned(b, s, "ctor(view)");
				Str b2(TrackAlloc{}, v);
				check_owned(b2, s, "ctor(alloc,view)");
				Str c(a);                                                    // copy
				check_owned(c, s, "copy");
				EXPECT(c.data() != a.data() || !a.data(), "C15", "string:copy:aliases", "copy shares the buffer");
				std::string upto = s.substr(0, s.find('\0'));
				const char *cz = g2.place_cstr(upto);                       // C string up to the first NUL
				Str d(cz, TrackAlloc{});
				check_owned(d, upto, "ctor(cstr)");
				Str d2(TrackAlloc{}, cz);
				check_owned(d2, upto, "ctor(alloc,cstr)");
				View vz(cz);
				EXPECT(vz.size() == upto.size(), "C15", "view:ctor(cstr)", "view(cstr) has the wrong length");
				Str e(TrackAlloc{}); e = a;                                  // assignment
				check_owned(e, s, "assign");
				e = e;
				check_owned(e, s, "self-assign");
				Str dflt(TrackAlloc{});
				check_owned(dflt, "", "default");
				Str cd(dflt);
				check_owned(cd, "", "copy-of-default");
				Str f(s.size(), 'b', TrackAlloc{});
				check_owned(f, std::string(s.size(), 'b'), "ctor(n,c)");
				using std::swap; swap(e, f);
				check_owned(f, s, "swap"); check_owned(e, std::string(s.size(), 'b'), "swap");
				View conv = a;
				EXPECT(conv.size() == s.size() && (conv.data() == a.data()), "C15", "string:to-view", "conversion to view wrong");
				// iteration / indexing
				std::string it; for(char ch : a) it.push_back(ch);
				EXPECT(it == s, "C15", "string:iteration", "begin()..end() differs");
				{ const Str &ca = a; std::string cit; for(char ch : ca) cit.push_back(ch); EXPECT(cit == s && ca.begin() == a.data() && ca.end() == a.data() + s.size(), "C15", "string:const-iteration", "const begin()..end() differs"); }
				// detach(): the string gives up its buffer (the caller owns and frees it) and is empty afterwards
				{
					Str g(a);
					char *buf = g.data(); size_t glen = g.size();
					g.detach();
					EXPECT(g.size() == 0 && g.data() == nullptr, "C15", "string:detach:state", "a detached string is not empty");
					EXPECT(buf && std::string(buf, glen) == s && buf[glen] == 0, "C15", "string:detach:buffer", "the detached buffer does not hold the contents");
					TrackAlloc{}.free(buf);
					g += View("ab", 2);
					check_owned(g, "ab", "append-after-detach");
				}
				for(size_t i = 0; i < s.size(); i++) EXPECT(a[i] == s[i] && v[i] == s[i], "C15", "string:index", "operator[] differs");
				// views that ALIAS one buffer: every pair of sub-views of this string (same start with different lengths,
				// overlapping, nested) must compare like their contents
				for(size_t f1 = 0; f1 <= s.size(); f1++) for(size_t n1 = 0; f1 + n1 <= s.size(); n1++) for(size_t f2 = 0; f2 <= s.size(); f2++) for(size_t n2 = 0; f2 + n2 <= s.size(); n2++) {
					View x = v.sub_string(f1, n1), y = v.sub_string(f2, n2);
					std::string sx = s.substr(f1, n1), sy = s.substr(f2, n2);
					EXPECT((x == y) == (sx == sy) && (x != y) == (sx != sy), "C15", "view:==:aliasing", "sub-views of one buffer compare differently from their contents");
					EXPECT(x.starts_with(y) == (sx.compare(0, sy.size(), sy) == 0 && sy.size() <= sx.size()), "C15", "view:starts_with:aliasing", "starts_with() of sub-views of one buffer differs from the reference");
				}
				// hashing: string and view agree, equal contents -> equal hash
				unsigned h1 = frg::hash<Str>{}(a), h2 = frg::hash<View>{}(v), h3 = frg::hash<Str>{}(c);
				EXPECT(h1 == h2 && h1 == h3, "C15", "string:hash", "hash of equal contents differs (string vs view vs copy)");
			}
			raise_pending(); world_check_empty("string.construct");
		});
		for(size_t n = 0; n <= s.size() + 2; n++) E.eval("resize " + key + " -> " + std::to_string(n), "string.resize", [&] {
			world_reset();
			{
				Str a(g1.place(s.data(), s.size()), s.size(), TrackAlloc{});
				a.resize(n);
				EXPECT(a.size() == n, "C15", "string:resize:size", "resize: wrong size");
				std::string got = as_std(a), want = s.substr(0, std::min(n, s.size()));
				EXPECT(got.substr(0, want.size()) == want, "C15", "string:resize:prefix", "resize did not keep the prefix");
				EXPECT(a.data()[n] == 0, "C15", "string:resize:terminator", "resize: missing terminator");
				Str d(TrackAlloc{}); d.resize(n);
				EXPECT(d.size() == n && d.data()[n] == 0, "C15", "string:resize:default", "resize of a default string wrong");
			}
			raise_pending(); world_check_empty("string.resize");
		});
		for(char c : std::string("ab\0", 3)) {
			std::string ck = printable(std::string(1, c));
			E.eval("push_back " + key + " + " + ck, "string.push_back", [&] {
				world_reset();
				{
					Str a(g1.place(s.data(), s.size()), s.size(), TrackAlloc{});
					a.push_back(c); check_owned(a, s + c, "push_back");
					Str b(g1.place(s.data(), s.size()), s.size(), TrackAlloc{});
					b += c; check_owned(b, s + c, "+=char");
					Str p = b + c; check_owned(p, s + c + c, "+char");
					check_owned(b, s + c, "+char(source)");
					Str d(TrackAlloc{}); d += c; check_owned(d, std::string(1, c), "+=char(default)");
					Str d2(TrackAlloc{}); Str p2 = d2 + c; check_owned(p2, std::string(1, c), "+char(default)");
				}
				raise_pending(); world_check_empty("string.push_back");
			});
			// searches on the view
			View v(g1.place(s.data(), s.size()), s.size());
			for(size_t from = 0; from <= s.size() + 1; from++) E.eval("find_first " + key + " " + ck + " from " + std::to_string(from), "view.find_first", [&] {
				size_t r = v.find_first(c, from);
				size_t want = from <= s.size() ? s.find(c, from) : std::string::npos;
				EXPECT(r == (want == std::string::npos ? size_t(-1) : want), "C15", "view:find_first", "find_first differs from std::string::find");
			});
			E.eval("find_last " + key + " " + ck, "view.find_last", [&] {
				size_t r = v.find_last(c), want = s.rfind(c);
				EXPECT(r == (want == std::string::npos ? size_t(-1) : want), "C15", "view:find_last", "find_last differs from std::string::rfind");
			});
		}
		// sub_string: exact inside, assertion outside
		for(size_t from = 0; from <= s.size() + 1; from++) for(size_t n = 0; n <= s.size() + 1; n++) {
			E.eval("sub_string " + key + " " + std::to_string(from) + "," + std::to_string(n), "view.sub_string", [&] {
				View v(g1.place(s.data(), s.size()), s.size());
				bool inside = from + n <= s.size();
				try {
					View r = v.sub_string(from, n);
					EXPECT(inside, "C15", "view:sub_string:no-assert", "sub_string outside the view did not stop in the assertion hook");
					EXPECT(r.size() == n && std::string(r.data(), r.size()) == s.substr(from, n), "C15", "view:sub_string:value", "sub_string differs from std::string::substr");
				} catch(const Panic &) { EXPECT(!inside, "C15", "view:sub_string:spurious-assert", "sub_string inside the view asserted"); }
			});
		}
		for(size_t from : {size_t(1), s.size(), s.size() + 1}) for(size_t n : {SIZE_MAX, SIZE_MAX - 1, SIZE_MAX - s.size() + 1}) {
			if(from + n <= s.size() && !(from + n < from)) continue;
			E.eval("sub_string-huge " + key + " " + std::to_string(from) + "," + std::to_string(n), "view.sub_string", [&] {
				View v(g1.place(s.data(), s.size()), s.size());
				bool inside = from <= s.size() && n <= s.size() - from;
				try { View r = v.sub_string(from, n); EXPECT(inside, "C20", "view:sub_string:wraps", "sub_string(from, size) with from+size overflowing returned a view instead of asserting (size " + std::to_string(r.size()) + ")"); }
				catch(const Panic &) { }
			});
		}
	}
	return E.finish();
}

static InstResult run_binary(const std::vector<CrashInfo> &cr, size_t maxlen, int shard, int nshards) {
	Enumerator E("strings-binary-" + std::to_string(shard), crash_prop(), cr);
	GuardBuf g1, g2;
	auto all = all_strings(maxlen);
	for(size_t i = shard; i < all.size(); i += nshards) for(auto &t : all) {
		const std::string &s = all[i];
		E.eval(printable(s) + " x " + printable(t), "string.binary", [&] {
			world_reset();
			{
				const char *rs = g1.place(s.data(), s.size()), *rt = g2.place(t.data(), t.size());
				Str a(rs, s.size(), TrackAlloc{}), b(rt, t.size(), TrackAlloc{});
				View va(rs, s.size()), vb(rt, t.size());
				bool eq = s == t;
				EXPECT((a == b) == eq && (va == vb) == eq && (vb == va) == eq, "C15", "string:operator==", "operator== differs from the reference");
				int c1 = a.compare(b), c2 = b.compare(a);
				EXPECT((c1 == 0) == eq, "C15", "string:compare:zero", "compare()==0 is not equivalent to equal contents");
				EXPECT(sgn(c1) == -sgn(c2), "C15", "string:compare:antisymmetry", "compare is not antisymmetric");
				if(t.find('\0') == std::string::npos) {
					const char *cz = g2.place_cstr(t);
					EXPECT(sgn(a.compare(cz)) == sgn(c1), "C15", "string:compare:overloads", "compare(const char*) disagrees with compare(string)");
					EXPECT((a == cz) == eq, "C15", "string:operator==(cstr)", "operator==(const char*) wrong");
					rt = g2.place(t.data(), t.size());
				}
				Str p = a + vb; check_owned(p, s + t, "+view"); check_owned(a, s, "+view(source)");
				Str q(rs, s.size(), TrackAlloc{}); q += vb; check_owned(q, s + t, "+=view");
				Str q2(TrackAlloc{}); q2 += vb; check_owned(q2, t, "+=view(default)");
				Str q3(TrackAlloc{}); Str p3 = q3 + vb; check_owned(p3, t, "+view(default)");
				bool sw = s.size() >= t.size() && s.compare(0, t.size(), t) == 0;
				bool ew = s.size() >= t.size() && s.compare(s.size() - t.size(), t.size(), t) == 0;
				EXPECT(va.starts_with(vb) == sw && a.starts_with(vb) == sw, "C15", "string:starts_with", "starts_with differs from the reference");
				EXPECT(va.ends_with(vb) == ew && a.ends_with(vb) == ew, "C15", "string:ends_with", "ends_with differs from the reference");
				for(size_t from = 0; from <= s.size(); from++) {
					size_t r = va.find_first_of(vb, from), want = s.find_first_of(t, from);
					EXPECT(r == (want == std::string::npos ? size_t(-1) : want), "C15", "view:find_first_of", "find_first_of differs from the reference");
				}
				if(eq) EXPECT(frg::hash<Str>{}(a) == frg::hash<Str>{}(b) && frg::hash<View>{}(va) == frg::hash<View>{}(vb), "C15", "string:hash-equal", "equal strings hash differently");
			}
			raise_pending(); world_check_empty("string.binary");
		});
	}
	return E.finish();
}

// compare(): transitivity over all triples (values only, no allocation per triple)
static InstResult run_triples(const std::vector<CrashInfo> &cr, size_t maxlen) {
	Enumerator E("strings-compare-triples", crash_prop(), cr);
	world_reset();
	auto all = all_strings(maxlen);
	std::vector<Str *> objs;
	for(auto &s : all) objs.push_back(new Str(s.data(), s.size(), TrackAlloc{}));
	size_t n = all.size();
	std::vector<signed char> cmp(n * n);
	for(size_t i = 0; i < n; i++) for(size_t j = 0; j < n; j++) cmp[i * n + j] = (signed char)sgn(objs[i]->compare(*objs[j]));
	for(size_t i = 0; i < n; i++) E.eval("triples with first=" + printable(all[i]), "string.compare-transitivity", [&] {
		for(size_t j = 0; j < n; j++) for(size_t k = 0; k < n; k++)
			if(cmp[i * n + j] <= 0 && cmp[j * n + k] <= 0) EXPECT(cmp[i * n + k] <= 0, "C15", "string:compare:transitivity", "compare is not transitive on " + printable(all[i]) + "," + printable(all[j]) + "," + printable(all[k]));
	});
	E.res.counters["triples"] = n * n * n;
	for(auto *p : objs) delete p;
	return E.finish();
}

// to_number: digit strings that fit agree with strtoull; anything else is null_opt
template<class T> static void tonum(Enumerator &E, GuardBuf &g, const std::string &s, const char *tn) {
	E.eval(std::string("to_number<") + tn + "> " + printable(s), "view.to_number", [&] {
		View v(g.place(s.data(), s.size()), s.size());
		bool digits = true; for(char c : s) if(c < '0' || c > '9') digits = false;
		unsigned __int128 val = 0; bool fits = true;
		for(char c : s) if(digits) { val = val * 10 + (c - '0'); if(val > (unsigned __int128)std::numeric_limits<T>::max()) fits = false; }
		if(digits && !fits) return;       // outside "digit strings that fit": decided by C20 (no UB), value unspecified
		auto r = v.to_number<T>();
		if(!digits) EXPECT(!r, "C15", "view:to_number:non-digit", "to_number accepted a non-digit string");
		else { EXPECT(bool(r), "C15", "view:to_number:rejected", "to_number rejected a digit string that fits"); EXPECT(*r == (T)val, "C15", "view:to_number:value", "to_number returned the wrong value"); }
	});
}
static InstResult run_tonumber(const std::vector<CrashInfo> &cr, size_t maxlen) {
	Enumerator E("strings-to_number", crash_prop(), cr);
	GuardBuf g;
	std::vector<std::string> inputs;
	for_all_strings("019a", maxlen, [&](const std::string &s) { inputs.push_back(s); });
	for(unsigned long long v : {0ull, (unsigned long long)INT_MAX, (unsigned long long)INT_MAX - 1, (unsigned long long)UINT_MAX, (unsigned long long)UINT_MAX - 1, (unsigned long long)LONG_MAX, (unsigned long long)LONG_MAX - 1, ULLONG_MAX, ULLONG_MAX - 1, 127ull, 255ull, 65535ull})
		inputs.push_back(std::to_string(v));
	for(auto &s : inputs) { tonum<int>(E, g, s, "int"); tonum<unsigned>(E, g, s, "unsigned"); tonum<long>(E, g, s, "long"); tonum<uint64_t>(E, g, s, "uint64_t"); tonum<unsigned char>(E, g, s, "uint8_t"); }
	return E.finish();
}

// wide characters: construction / append only (terminator arithmetic with sizeof(Char) > 1)
static InstResult run_wide(const std::vector<CrashInfo> &cr) {
	Enumerator E("strings-char32", crash_prop(), cr);
	using W = frg::basic_string<char32_t, TrackAlloc>;
	using WV = frg::basic_string_view<char32_t>;
	GuardBuf g;
	for(size_t len = 0; len <= 5; len++) E.eval("char32_t len=" + std::to_string(len), "string.wide", [&] {
		world_reset();
		{
			std::u32string s; for(size_t i = 0; i < len; i++) s.push_back(U'a' + (char32_t)i);
			const char32_t *raw = g.place<char32_t>(s.data(), s.size());
			W a(raw, s.size(), TrackAlloc{});
			EXPECT(a.size() == len && std::u32string(a.data(), a.size()) == s && a.data()[len] == 0, "C15", "string:wide:ctor", "char32_t string (ptr,len) wrong");
			W b(WV(raw, s.size()), TrackAlloc{});
			EXPECT(std::u32string(b.data(), b.size()) == s && b.data()[len] == 0, "C15", "string:wide:ctor(view)", "char32_t string from view wrong");
			W c(a); c += U'z'; c += WV(raw, s.size());
			EXPECT(std::u32string(c.data(), c.size()) == s + U'z' + s && c.data()[c.size()] == 0, "C15", "string:wide:append", "char32_t append wrong");
			W d = a + WV(raw, s.size()); W e = a + U'q'; a.resize(len + 1);
			EXPECT(d.size() == 2 * len && e.size() == len + 1 && a.data()[len + 1] == 0, "C15", "string:wide:plus", "char32_t operator+/resize wrong");
		}
		raise_pending(); world_check_empty("string.wide");
	});
	return E.finish();
}

// mutation sequences on two string slots against std::string (BFS, depth-limited)
struct StrSeq : HarnessBase {
	alignas(16) unsigned char store[2][sizeof(Str)];
	bool alive[2] = {false, false};
	std::string ref[2];
	int maxlen;
	GuardBuf g;
	StrSeq(int m) : maxlen(m) {}
	const char *prop() const { static std::string p = crash_prop(); return p.c_str(); }
	Str &s(int a) { return *reinterpret_cast<Str *>(store[a]); }
	void reset() { world_reset(); for(int a = 0; a < 2; a++) { memset(store[a], 0xA5, sizeof(Str)); new(store[a]) Str(TrackAlloc{}); alive[a] = true; ref[a].clear(); } }
	enum { APPEND_CHAR, APPEND_OTHER, APPEND_SELF, PUSH, RESIZE, ASSIGN, SWAP, PLUS, MOVE_ASSIGN, MOVE_CONS };
	static uint32_t mk(uint32_t k, uint32_t a, uint32_t v = 0) { return k | a << 8 | v << 12; }
	void ops(std::vector<uint32_t> &out) {
		for(uint32_t a = 0; a < 2; a++) {
			if((int)ref[a].size() < maxlen) { out.push_back(mk(APPEND_CHAR, a, 'a')); out.push_back(mk(APPEND_CHAR, a, 0)); out.push_back(mk(PUSH, a, 'b')); }
			if((int)(ref[a].size() + ref[1 - a].size()) <= maxlen) { out.push_back(mk(APPEND_OTHER, a)); out.push_back(mk(PLUS, a)); }
			if((int)(2 * ref[a].size()) <= maxlen) out.push_back(mk(APPEND_SELF, a));
			for(uint32_t n : {0u, 1u, 3u}) if(n != ref[a].size()) out.push_back(mk(RESIZE, a, n));
			out.push_back(mk(ASSIGN, a)); out.push_back(mk(MOVE_ASSIGN, a)); out.push_back(mk(MOVE_CONS, a));
		}
		out.push_back(mk(SWAP, 0));
	}
	std::string show_class(uint32_t op) { static const char *nm[] = {"+=char", "+=view(other)", "+=view(self)", "push_back", "resize", "assign", "swap", "a=a+other", "a=move(other)", "construct-from-move(other)"}; return std::string("string.") + nm[op & 0xff]; }
	std::string show(uint32_t op) { return show_class(op) + "(slot" + std::to_string((op >> 8) & 0xf) + "," + std::to_string(op >> 12) + ")"; }
	void apply(uint32_t op) {
		uint32_t k = op & 0xff, a = (op >> 8) & 0xf, b = 1 - a, v = op >> 12;
		switch(k) {
		case APPEND_CHAR: s(a) += (char)v; ref[a] += (char)v; break;
		case PUSH: s(a).push_back((char)v); ref[a] += (char)v; break;
		case APPEND_OTHER: s(a) += View(s(b)); ref[a] += ref[b]; break;
		case APPEND_SELF: s(a) += View(s(a)); ref[a] += std::string(ref[a]); break;
		case RESIZE: { s(a).resize(v); std::string keep = ref[a].substr(0, std::min<size_t>(v, ref[a].size())); ref[a] = keep + std::string(v - keep.size(), '\0');
			// bytes beyond the old length are unspecified after resize: make them defined
			for(size_t i = keep.size(); i < v; i++) s(a)[i] = 0; break; }
		case ASSIGN: s(a) = s(b); ref[a] = ref[b]; break;
		case SWAP: { using std::swap; swap(s(0), s(1)); std::swap(ref[0], ref[1]); break; }
		case PLUS: s(a) = s(a) + View(s(b)); ref[a] = ref[a] + ref[b]; break;
		case MOVE_ASSIGN: s(a) = std::move(s(b)); ref[a] = ref[b]; moved_from(b); break;
		case MOVE_CONS: s(a).~Str(); memset(store[a], 0xA5, sizeof(Str)); new(store[a]) Str(std::move(s(b))); ref[a] = ref[b]; moved_from(b); break;
		}
	}
	// The source of a move holds SOME string afterwards (today: its old value, there is no move constructor): whatever it
	// reports must be a well-formed owned string, which then becomes its reference value (check_state compares against it).
	void moved_from(int b) {
		Str &x = s(b);
		if(!x.data()) { EXPECT(x.size() == 0, "C15", "string:moved-from:size-without-buffer", "a moved-from string reports size() = " + std::to_string(x.size()) + " but owns no buffer"); ref[b].clear(); return; }
		size_t bs = heap().size_of((void *)x.data());
		EXPECT(bs != (size_t)-1 && bs >= x.size() + 1, "C15", "string:moved-from:buffer", "a moved-from string reports a size its buffer cannot hold");
		ref[b] = std::string(x.data(), x.size());
	}
	void check_state() { for(int a = 0; a < 2; a++) check_owned(s(a), ref[a], "sequence"); if(res) res->outcomes.insert(std::to_string(ref[0].size()) + "/" + std::to_string(ref[1].size())); }
	void final_check() { for(int a = 0; a < 2; a++) if(alive[a]) { s(a).~Str(); alive[a] = false; } raise_pending(); world_check_empty("string"); }
	void canon(std::string &out) { world_canon(out); GraphCanon gc; for(int a = 0; a < 2; a++) if(alive[a]) gc.root(store[a], sizeof(Str)); gc.emit(out); out += ref[0]; out.push_back('|'); out += ref[1]; }
};

// characters with the high bit set (char is signed here): hashing and comparison of string vs view vs copy
static InstResult run_highbit(const std::vector<CrashInfo> &cr) {
	Enumerator E("strings-high-bit", crash_prop(), cr);
	GuardBuf g1, g2;
	std::vector<std::string> all;
	for_all_strings(std::string("a\x80\xff\0", 4), 3, [&](const std::string &s) { all.push_back(s); });
	for(auto &s : all) for(auto &t : all) E.eval(printable(s) + " x " + printable(t), "string.high-bit", [&] {
		world_reset();
		{
			const char *rs = g1.place(s.data(), s.size()), *rt = g2.place(t.data(), t.size());
			Str a(rs, s.size(), TrackAlloc{}), b(rt, t.size(), TrackAlloc{}), c(a);
			View va(rs, s.size()), vb(rt, t.size());
			unsigned h1 = frg::hash<Str>{}(a), h2 = frg::hash<View>{}(va), h3 = frg::hash<Str>{}(c), h4 = frg::hash<View>{}(View(a));
			EXPECT(h1 == h2 && h1 == h3 && h1 == h4, "C15", "string:hash-high-bit", "hash of the same character sequence differs between string, view and copy for " + printable(s));
			bool eq = s == t;
			EXPECT((a == b) == eq && (va == vb) == eq && (a.compare(b) == 0) == eq, "C15", "string:equality-high-bit", "equality differs from the reference");
			EXPECT(sgn(a.compare(b)) == -sgn(b.compare(a)), "C15", "string:compare:antisymmetry", "compare is not antisymmetric");
			if(eq) EXPECT(frg::hash<Str>{}(b) == h1, "C15", "string:hash-equal", "equal strings hash differently");
			Str p = a + vb; check_owned(p, s + t, "+view(high-bit)");
			for(unsigned char ch : {0x80, 0xff}) { size_t r = va.find_first((char)ch), w = s.find((char)ch); EXPECT(r == (w == std::string::npos ? size_t(-1) : w), "C15", "view:find_first-high-bit", "find_first of a high-bit character differs"); }
		}
		raise_pending(); world_check_empty("string.high-bit");
	});
	return E.finish();
}

static std::vector<Instance> instances(const std::string &tier) {
	bool th = tier == "thorough";
	size_t maxlen = th ? 5 : 4;
	std::vector<Instance> v;
	auto add = [&](const std::string &name, std::function<InstResult(const std::vector<CrashInfo> &)> f) {
		Instance i; i.name = name; i.run = f;
		i.replay = [f, name](const std::string &) { InstResult r = f({}); for(auto &x : r.violations) printf("REPLAY-VIOLATION property=%s sig=%s: %s [%s]\n", x.prop.c_str(), x.sig.c_str(), x.msg.c_str(), x.history.c_str()); return (int)r.violations.size(); };
		v.push_back(i);
	};
	int NS = 12;
	for(int sh = 0; sh < NS; sh++) add("strings-binary-" + std::to_string(sh), [=](const std::vector<CrashInfo> &cr) { return run_binary(cr, maxlen, sh, NS); });
	add("strings-unary", [=](const std::vector<CrashInfo> &cr) { return run_unary(cr, maxlen); });
	add("strings-compare-triples", [=](const std::vector<CrashInfo> &cr) { return run_triples(cr, th ? 4 : 3); });
	add("strings-to_number", [=](const std::vector<CrashInfo> &cr) { return run_tonumber(cr, th ? 6 : 5); });
	add("strings-char32", [=](const std::vector<CrashInfo> &cr) { return run_wide(cr); });
	add("strings-high-bit", [=](const std::vector<CrashInfo> &cr) { return run_highbit(cr); });
	BfsOptions o; o.max_depth = th ? 5 : 4;
	v.push_back(bfs_instance<StrSeq>("strings-sequences", o, th ? 6 : 4));
	return v;
}
int main(int argc, char **argv) { return harness_main(argc, argv, instances); }
