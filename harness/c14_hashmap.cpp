// C14 (+C16): frg::hash_map against std::map, chained from non-initial states (pre-filled maps
// around every rehash threshold), for several hash functions including heavily colliding ones.
#include "../engine/seqmc.hpp"
#include "../engine/world.hpp"
#include <frg/hash_map.hpp>
#include <frg/hash.hpp>
#include <climits>
#include <map>
#include <algorithm>

using namespace verif;

// The hasher returns a 64-bit value: hash_map is documented to work with "any hash function", and a
// functor whose result does not fit into 32 bits is where the bucket computations of the different
// operations can disagree.
struct HashFn {
	int mode;
	uint64_t operator()(int k) const {
		switch(mode) {
		case 0: return (unsigned)k;            // identity
		case 1: return 7;                      // constant: everything collides
		case 2: return (unsigned)k & 1;        // low entropy
		case 3: return (unsigned)k * 10u;      // multiples of the initial capacity
		case 4: return (uint64_t)k * 0x9E3779B97F4A7C15ull;          // wide: significant bits above bit 31
		case 5: return (uint64_t)(int64_t)(-(int64_t)k * 7 - 3);       // "negative": all high bits set
		default: return (unsigned)k * 2654435761u;
		}
	}
};
static const char *hash_name[] = {"identity", "constant", "lowbit", "times10", "wide64", "negative", "fib"};

// Key spaces: the harness works with small integer names; a key space maps a name to the real key and
// supplies the hasher.  Besides the synthetic functors above, the library's own frg::hash specialisations
// are used with keys on which they are not the identity (negative, wider than 32 bits, pointers, C strings).
struct IntKeys { using key = int; using hasher = HashFn; static key make(int i) { return i; } static hasher hash(int mode) { return HashFn{mode}; } };
struct FrgIntKeys { using key = int; using hasher = frg::hash<int>; static key make(int i) { return (i & 1) ? -i : i; } static hasher hash(int) { return {}; } };
struct FrgI64Keys { using key = int64_t; using hasher = frg::hash<int64_t>; static key make(int i) { return (i & 1) ? -(int64_t)i * 0x100000001ll : (int64_t)i * 0x100000001ll + ((int64_t)i << 40); } static hasher hash(int) { return {}; } };
struct FrgU64Keys { using key = uint64_t; using hasher = frg::hash<uint64_t>; static key make(int i) { return (uint64_t)i * 0x9E3779B97F4A7C15ull; } static hasher hash(int) { return {}; } };
struct FrgUIntKeys { using key = unsigned int; using hasher = frg::hash<unsigned int>; static key make(int i) { return 0x80000000u + (unsigned)i * 0x10001u; } static hasher hash(int) { return {}; } };
static char g_ptr_pool[4096];
struct FrgPtrKeys { using key = char *; using hasher = frg::hash<char *>; static key make(int i) { return &g_ptr_pool[i]; } static hasher hash(int) { return {}; } };

template<class Val, class KS = IntKeys>
struct HmHarness : HarnessBase {
	using Key = typename KS::key;
	using M = frg::hash_map<Key, Val, typename KS::hasher, TrackAlloc>;
	int mode, prefill; bool drain_first;
	alignas(16) unsigned char store[sizeof(M)];
	bool alive = false;
	// The caller's hasher object: the map is built from it and must have its own copy; the caller's object is
	// overwritten once the start state is built (a map that kept a reference to it would start hashing differently).
	typename KS::hasher hsrc{};
	void scramble_hasher() { if constexpr(std::is_trivially_copyable_v<typename KS::hasher>) memset((void *)&hsrc, 0x5a, sizeof hsrc); }
	std::map<int, int> ref;
	std::vector<int> alphabet, universe;

	HmHarness(int mode_, int prefill_, bool drain) : mode(mode_), prefill(prefill_), drain_first(drain) {
		std::vector<int> pre;
		for(int i = 0; i < (prefill == -3 ? 3 : prefill); i++) pre.push_back(3 * i + 1);
		if(!drain && prefill) { alphabet.push_back(pre[0]); if(prefill > 1) alphabet.push_back(pre[prefill / 2]); }
		for(int k : {1013, 1027, 1035}) alphabet.push_back(k);
		if(alphabet.size() < 5) alphabet.push_back(2050);
		universe = pre;
		for(int k : alphabet) if(std::find(universe.begin(), universe.end(), k) == universe.end()) universe.push_back(k);
	}
	const char *prop() const { return wanted_prop() == "C16" ? "C16" : "C14"; }   // C16 runs this harness too: a crash, sanitizer report or assertion then counts for it
	M &m() { return *reinterpret_cast<M *>(store); }
	void reset() {
		world_reset();
		memset(store, 0xA5, sizeof store);
		ref.clear();
		if(prefill == -3) {   // initializer-list constructor with three entries (keys 1, 4, 7 like the pre-fill)
			hsrc = KS::hash(mode);
			new(store) M(hsrc, {typename M::entry_type{KS::make(1), Val(1)}, typename M::entry_type{KS::make(4), Val(2)}, typename M::entry_type{KS::make(7), Val(1)}}, TrackAlloc{});
			alive = true; ref[1] = 1; ref[4] = 2; ref[7] = 1;
			scramble_hasher();
			return;
		}
		hsrc = KS::hash(mode);
		new(store) M(hsrc, TrackAlloc{}); alive = true;
		for(int i = 0; i < prefill; i++) { int k = 3 * i + 1; m().insert(KS::make(k), Val(1 + (i & 1))); ref[k] = 1 + (i & 1); if(i == prefill / 2) scramble_hasher(); }
		if(drain_first) { for(int i = 0; i < prefill; i++) { m().remove(KS::make(3 * i + 1)); } ref.clear(); }
		scramble_hasher();
	}
	enum { INSERT_C, INSERT_M, INDEX_ASSIGN, INDEX_TOUCH, REMOVE };
	static uint32_t mk(uint32_t k, uint32_t ki, uint32_t v = 0) { return k | ki << 8 | v << 16; }
	void ops(std::vector<uint32_t> &out) {
		for(uint32_t i = 0; i < alphabet.size(); i++) {
			int k = alphabet[i];
			if(!ref.count(k)) { out.push_back(mk(INSERT_C, i, 1)); out.push_back(mk(INSERT_M, i, 2)); }
			out.push_back(mk(INDEX_ASSIGN, i, 1)); out.push_back(mk(INDEX_ASSIGN, i, 2));
			out.push_back(mk(INDEX_TOUCH, i));
			out.push_back(mk(REMOVE, i));
		}
	}
	std::string show_class(uint32_t op) { static const char *nm[] = {"insert(const&)", "insert(&&)", "operator[]=", "operator[]", "remove"}; return std::string("hash_map.") + nm[op & 0xff]; }
	std::string show(uint32_t op) { char b[96]; snprintf(b, sizeof b, "%s(key=%d,v=%u)", show_class(op).c_str(), alphabet[(op >> 8) & 0xff], op >> 16); return b; }
	[[noreturn]] void fail(const std::string &sig, const std::string &msg) { throw Violation{"C14", "hash_map:" + sig, msg}; }
	void apply(uint32_t op) {
		uint32_t kind = op & 0xff; int k = alphabet[(op >> 8) & 0xff]; int v = op >> 16;
		switch(kind) {
		case INSERT_C: { Val x(v); m().insert(KS::make(k), x); ref[k] = v; break; }
		case INSERT_M: { m().insert(KS::make(k), Val(v)); ref[k] = v; break; }
		case INDEX_ASSIGN: {
			bool was = ref.count(k); size_t before = m().size();
			Val &r = m()[KS::make(k)];
			if(was && val(r) != ref[k]) fail("operator[]:value", "operator[] on a present key returned a different value");
			if(!was && val(r) != 0) fail("operator[]:default", "operator[] on an absent key did not return a default value");
			if(m().size() != before + (was ? 0 : 1)) fail("operator[]:size", "operator[] changed size() by the wrong amount");
			r = Val(v); ref[k] = v; break;
		}
		case INDEX_TOUCH: {
			bool was = ref.count(k);
			Val &r = m()[KS::make(k)];
			if(was && val(r) != ref[k]) fail("operator[]:value", "operator[] on a present key returned a different value");
			if(!was) { if(val(r) != 0) fail("operator[]:default", "operator[] on an absent key did not return a default value"); ref[k] = 0; }
			break;
		}
		case REMOVE: {
			auto o = m().remove(KS::make(k));
			if(ref.count(k)) {
				if(!o) fail("remove:missed", "remove() of a present key returned nothing");
				if(val(*o) != ref[k]) fail("remove:value", "remove() returned the wrong value");
				ref.erase(k);
			} else if(o) fail("remove:spurious", "remove() of an absent key returned a value");
			break;
		}
		}
	}
	void check_state() {
		M &x = m(); const M &cx = x;
		if(x.size() != ref.size()) fail("size", "size() = " + std::to_string(x.size()) + ", reference " + std::to_string(ref.size()));
		if(x.empty() != ref.empty()) fail("empty", "empty() differs from the reference");
		for(int k : universe) {
			auto it = ref.find(k);
			Val *g = x.get(KS::make(k));
			auto f = x.find(KS::make(k));
			auto cf = cx.find(KS::make(k));
			if(it == ref.end()) {
				if(g) fail("get:spurious", "get() found absent key " + std::to_string(k));
				if(!(f == x.end()) || !(cf == cx.end())) fail("find:spurious", "find() found absent key " + std::to_string(k));
			} else {
				if(!g) fail("get:missed", "get() does not find present key " + std::to_string(k));
				if(val(*g) != it->second) fail("get:value", "get() returned the wrong value");
				if(f == x.end() || cf == cx.end()) fail("find:missed", "find() does not find present key " + std::to_string(k));
				if(f->template get<0>() != KS::make(k) || val(f->template get<1>()) != it->second || cf->template get<0>() != KS::make(k)) fail("find:value", "find() returned the wrong entry");
				if(&f->template get<1>() != g) fail("find:identity", "find() and get() designate different objects");
			}
		}
		std::map<int, int> seen; size_t guard = 0;
		for(auto it = x.begin(); !(it == x.end()); ++it) {
			if(++guard > ref.size() + 2) fail("iteration:runaway", "iteration yields more entries than size()");
			Key rk = it->template get<0>(); int k = INT_MIN;
			for(int u : universe) if(KS::make(u) == rk) k = u;
			if(k == INT_MIN) fail("iteration:foreign", "iteration yields a key that was never inserted");
			if(seen.count(k)) fail("iteration:duplicate", "iteration yields an entry twice");
			seen[k] = val(it->template get<1>());
		}
		if(seen != ref) fail("iteration:set", "iterated entry set differs from the reference");
		// an iterator is a position: find(a) and find(b) compare equal exactly when a == b (keys that share a bucket included),
		// != is the negation, and walking from begin() the position find(k) is met exactly once
		for(auto &ka : ref) for(auto &kb : ref) {
			auto fa = x.find(KS::make(ka.first)), fb = x.find(KS::make(kb.first));
			if((fa == fb) != (ka.first == kb.first)) fail("iterator:equality", "find(" + std::to_string(ka.first) + ") == find(" + std::to_string(kb.first) + ") is " + ((fa == fb) ? "true" : "false"));
			if((fa != fb) == (fa == fb)) fail("iterator:equality", "operator!= of iterators is not the negation of operator==");
		}
		for(auto &kv : ref) {
			auto target = x.find(KS::make(kv.first)); int met = 0; guard = 0;
			for(auto it = x.begin(); it != x.end() && ++guard <= ref.size() + 2; ++it) if(it == target) { met++; if(it->template get<0>() != KS::make(kv.first)) fail("iterator:equality", "a walk from begin() compares equal to find(k) at another entry"); }
			if(met != 1) fail("iterator:equality", "walking from begin(), the position find(" + std::to_string(kv.first) + ") is met " + std::to_string(met) + " times");
		}
		// const_iterator (obtainable from const find() only): walking on from any present key visits distinct present
		// entries and ends at end(); operator* and operator bool of both iterator kinds
		for(auto &kv0 : ref) {
			std::map<int, int> cseen; guard = 0;
			for(auto it = cx.find(KS::make(kv0.first)); !(it == cx.end()); ++it) {
				if(++guard > ref.size() + 2) fail("iteration:runaway", "const iteration yields more entries than size()");
				if(!it) fail("iteration:bool", "a dereferenceable const_iterator converts to false");
				const auto &e = *it;
				if(&e != it.operator->()) fail("iteration:deref", "operator* and operator-> of const_iterator designate different entries");
				Key rk = e.template get<0>(); int k = INT_MIN;
				for(int u : universe) if(KS::make(u) == rk) k = u;
				if(cseen.count(k)) fail("iteration:duplicate", "const iteration yields an entry twice");
				cseen[k] = val(e.template get<1>());
				auto r = ref.find(k);
				if(r == ref.end() || r->second != cseen[k]) fail("iteration:const-set", "const iteration yields an entry that the reference does not hold");
			}
			if(!cseen.count(kv0.first)) fail("iteration:const-set", "const iteration from find(k) does not start at k");
		}
		if(!ref.empty()) { auto it = x.begin(); if(!it) fail("iteration:bool", "begin() of a non-empty map converts to false"); if(&(*it).template get<1>() != &it->template get<1>()) fail("iteration:deref", "operator* and operator-> designate different entries"); }
		if(x.end() || cx.end()) fail("iteration:bool", "end() converts to true");
		if(res) res->outcomes.insert("size=" + std::to_string(ref.size()));
	}
	void final_check() { if(alive) { m().~M(); alive = false; } raise_pending(); world_check_empty("hash_map"); }
	void canon(std::string &out) {
		world_canon(out);
		// raw memory graph of the map (object, table, chains): hidden fields and chain order included
		GraphCanon g; if(alive) g.root(store, sizeof(M)); g.emit(out);
		out += "#";
		for(auto &kv : ref) { char b[32]; snprintf(b, sizeof b, "%d=%d,", kv.first, kv.second); out += b; }
	}
};

static std::vector<Instance> mk(const std::string &tier) {
	bool th = tier == "thorough";
	std::vector<Instance> v;
	std::vector<int> fills = {0, 8, 9, 10, 11, 19, 20, 21, 39, 40};
	int nmodes = th ? 7 : 6;
	for(int mode = 0; mode < nmodes; mode++) {
		for(int f : fills) {
			BfsOptions o; o.max_depth = th ? 5 : 4;
			if(f == 0) o.max_depth += 1;
			v.push_back(bfs_instance<HmHarness<Tracked>>(std::string("hm-") + hash_name[mode] + "-fill" + std::to_string(f), o, mode, f, false));
		}
		BfsOptions o; o.max_depth = th ? 5 : 4;
		v.push_back(bfs_instance<HmHarness<Tracked>>(std::string("hm-") + hash_name[mode] + "-fill12-drained", o, mode, 12, true));
		v.push_back(bfs_instance<HmHarness<Tracked>>(std::string("hm-") + hash_name[mode] + "-fill21-drained", o, mode, 21, true));
	}
	for(int mode : {0, 1, 4}) { BfsOptions o; o.max_depth = th ? 5 : 4; v.push_back(bfs_instance<HmHarness<Tracked>>(std::string("hm-") + hash_name[mode] + "-initializer-list", o, mode, -3, false)); }
	// the library's own hash functors on keys where they are not the identity
	for(int f : {0, 9, 10, 20, 40}) {
		BfsOptions o; o.max_depth = th ? 5 : 4;
		v.push_back(bfs_instance<HmHarness<Tracked, FrgIntKeys>>("hm-frg-hash-int-fill" + std::to_string(f), o, 0, f, false));
		v.push_back(bfs_instance<HmHarness<Tracked, FrgI64Keys>>("hm-frg-hash-i64-fill" + std::to_string(f), o, 0, f, false));
		v.push_back(bfs_instance<HmHarness<Tracked, FrgU64Keys>>("hm-frg-hash-u64-fill" + std::to_string(f), o, 0, f, false));
		v.push_back(bfs_instance<HmHarness<Tracked, FrgPtrKeys>>("hm-frg-hash-ptr-fill" + std::to_string(f), o, 0, f, false));
		v.push_back(bfs_instance<HmHarness<Tracked, FrgUIntKeys>>("hm-frg-hash-uint-fill" + std::to_string(f), o, 0, f, false));
	}
	{ BfsOptions o; o.max_depth = th ? 5 : 4; v.push_back(bfs_instance<HmHarness<Tracked, FrgI64Keys>>("hm-frg-hash-i64-fill21-drained", o, 0, 21, true)); }
	return v;
}
int main(int argc, char **argv) { return harness_main(argc, argv, mk); }
