// C06: frg::rbtree / frg::rbtree_order against an ordered reference sequence.
// Alphabet: insert(i) for nodes not contained, remove(i) for contained nodes, over a pool of N
// nodes with a fixed key assignment.  The reachable space is finite -> BFS to fixpoint covers
// operation sequences of every length over that pool.
#include "../engine/seqmc.hpp"
#include <frg/rbtree.hpp>
#include <type_traits>
#include <algorithm>
#include <cmath>

using namespace verif;

static constexpr int MAXN = 13;

struct Node {
	frg::rbtree_hook hook;
	int key;
	int id;
};
struct Less {
	bool operator()(const Node &a, const Node &b) const { return a.key < b.key; }
};
using Tree = frg::rbtree<Node, &Node::hook, Less>;
// a comparator object that carries state (the direction): the tree has to use the object it was constructed with
struct DirLess {
	int descending = 0;
	bool operator()(const Node &a, const Node &b) const { return descending ? b.key < a.key : a.key < b.key; }
};
using DTree = frg::rbtree<Node, &Node::hook, DirLess>;
using OTree = frg::rbtree_order<Node, &Node::hook>;

template<class T, bool Ordered>
struct RbHarness {
	static constexpr bool has_snapshot = true;
	InstResult *res = nullptr;
	int n;
	std::vector<int> keys;

	struct World {
		alignas(16) unsigned char tree[sizeof(T)];
		alignas(16) unsigned char nodes[sizeof(Node) * MAXN];
		int shrinking;   // grow-then-shrink instances: set by the first removal (part of the state)
	} w;
	std::vector<int> ref; // ids in expected order
	// grow-then-shrink: elements are only inserted until the tree holds all n, then only removed.  Every insertion order
	// of n distinct keys and every removal order of every tree so reached, at a node count the full insert/remove
	// exploration cannot reach (8th, 9th, 10th element: fix-ups that recurse twice).
	bool monotone = false;

	RbHarness(int n_, std::vector<int> keys_) : n(n_), keys(std::move(keys_)) {}
	const char *prop() const { return "C06"; }
	T &tree() { return *reinterpret_cast<T *>(w.tree); }
	Node &node(int i) { return reinterpret_cast<Node *>(w.nodes)[i]; }

	void reset() {
		memset(&w, 0xA5, sizeof w);   // nodes and trees are built in storage that is not all-zero, and default-initialised
		if constexpr(std::is_same_v<T, DTree>) new(w.tree) T(DirLess{1}); else new(w.tree) T;
		for(int i = 0; i < n; i++) {
			Node *p = new(&node(i)) Node;
			p->key = keys[i];
			p->id = i;
		}
		w.shrinking = 0;
		ref.clear();
	}
	bool contained(int i) const { return std::find(ref.begin(), ref.end(), i) != ref.end(); }

	// ops: kind<<8 | id   (ordered variant: insert has `before+1` in bits 16..)
	void ops(std::vector<uint32_t> &out) {
		if(monotone) {
			if(!w.shrinking) for(int i = 0; i < n; i++) if(!contained(i)) out.push_back((0u << 8) | i);
			if(w.shrinking || (int)ref.size() == n) for(int i = 0; i < n; i++) if(contained(i)) out.push_back((1u << 8) | i);
			return;
		}
		for(int i = 0; i < n; i++) if(!contained(i)) {
			if constexpr(Ordered) {
				out.push_back((0u << 8) | i);               // before = null
				for(int b : ref) out.push_back(((uint32_t)(b + 1) << 16) | (0u << 8) | i);
			} else out.push_back((0u << 8) | i);
		}
		for(int i = 0; i < n; i++) if(contained(i)) out.push_back((1u << 8) | i);
	}
	std::string show_class(uint32_t op) { return ((op >> 8) & 0xff) == 0 ? "insert" : "remove"; }
	std::string show(uint32_t op) {
		int id = op & 0xff, kind = (op >> 8) & 0xff, before = (int)(op >> 16) - 1;
		char b[64];
		if(kind == 0) {
			if(Ordered) snprintf(b, sizeof b, "insert(before=%d,n%d)", before, id);
			else snprintf(b, sizeof b, "insert(n%d:k%d)", id, keys[id]);
		} else snprintf(b, sizeof b, "remove(n%d)", id);
		return b;
	}

	void apply(uint32_t op) {
		int id = op & 0xff, kind = (op >> 8) & 0xff, before = (int)(op >> 16) - 1;
		if(kind == 0) {
			if constexpr(Ordered) {
				tree().insert(before >= 0 ? &node(before) : nullptr, &node(id));
				if(before < 0) ref.push_back(id);
				else ref.insert(std::find(ref.begin(), ref.end(), before), id);
			} else {
				tree().insert(&node(id));
				// equal keys go after existing equal keys
				auto it = std::upper_bound(ref.begin(), ref.end(), id, [&](int a, int b) { return std::is_same_v<T, DTree> ? keys[b] < keys[a] : keys[a] < keys[b]; });
				ref.insert(it, id);
			}
		} else {
			if(monotone) w.shrinking = 1;
			tree().remove(&node(id));
			ref.erase(std::find(ref.begin(), ref.end(), id));
			// removed hook fully reset
			auto &hk = node(id).hook;
			if(hk.parent || hk.left || hk.right || hk.predecessor || hk.successor)
				throw Violation{"C06", "removed-hook-not-reset", "links of removed node n" + std::to_string(id) + " are not null"};
		}
	}

	[[noreturn]] void fail(const std::string &sig, const std::string &msg) { throw Violation{"C06", sig, msg}; }

	int black_height(Node *x, int depth, int &maxdepth) {
		if(!x) return 1;
		if(depth > 64) fail("cycle", "tree deeper than 64: cycle in child links");
		maxdepth = std::max(maxdepth, depth);
		Node *l = T::get_left(x), *r = T::get_right(x);
		if(l && T::get_parent(l) != x) fail("parent-link", "left child's parent link wrong");
		if(r && T::get_parent(r) != x) fail("parent-link", "right child's parent link wrong");
		using C = frg::_redblack::color_type;
		if(x->hook.color != C::red && x->hook.color != C::black) fail("colour-null", "contained node has no colour");
		if(x->hook.color == C::red) {
			if((l && l->hook.color == C::red) || (r && r->hook.color == C::red)) fail("red-red", "red node with red child");
		}
		int bl = black_height(l, depth + 1, maxdepth), br = black_height(r, depth + 1, maxdepth);
		if(bl != br) fail("black-height", "black heights differ");
		return bl + (x->hook.color == C::black ? 1 : 0);
	}
	void inorder(Node *x, std::vector<int> &out, int depth) {
		if(!x || depth > 64) return;
		inorder(T::get_left(x), out, depth + 1);
		out.push_back(x->id);
		inorder(T::get_right(x), out, depth + 1);
	}

	void check_state() {
		T &t = tree();
		// walk via first()/successor
		std::vector<int> walk;
		Node *prev = nullptr;
		int guard = 0;
		for(Node *x = t.first(); x; x = T::successor(x)) {
			if(++guard > n + 1) fail("successor-cycle", "successor walk does not terminate");
			if(T::predecessor(x) != prev) fail("pred-succ-inverse", "predecessor(successor(x)) != x");
			walk.push_back(x->id);
			prev = x;
		}
		if(walk != ref) fail("walk-order", "first()/successor walk differs from reference order");
		std::vector<int> ino;
		inorder(t.get_root(), ino, 0);
		if(ino != ref) fail("inorder", "in-order walk over left/right differs from reference order");
		if(t.get_root()) {
			if(T::get_parent(t.get_root())) fail("root-parent", "root has a parent");
			using C = frg::_redblack::color_type;
			if(t.get_root()->hook.color != C::black) fail("root-red", "root is not black");
			int maxd = 0;
			black_height(t.get_root(), 1, maxd);
			double bound = 2.0 * std::log2((double)ref.size() + 1.0);
			if(maxd > bound + 1e-9) fail("height", "height exceeds 2*log2(n+1)");
		} else if(!ref.empty()) fail("lost-root", "tree empty but reference is not");
		for(int i = 0; i < n; i++) if(!contained(i)) {
			auto &hk = node(i).hook;
			if(hk.parent || hk.left || hk.right || hk.predecessor || hk.successor)
				fail("free-hook-touched", "node outside the tree has non-null links");
		}
		if(res) res->outcomes.insert("size=" + std::to_string(ref.size()));
	}

	void final_check() {}
	void canon(std::string &out) {
		out.append((const char *)&w, sizeof w);
		out.push_back((char)ref.size());
		for(int x : ref) out.push_back((char)x);
	}
	void save(std::string &b) { b.clear(); canon(b); }
	void load(const std::string &b) {
		memcpy(&w, b.data(), sizeof w);
		size_t k = (unsigned char)b[sizeof w];
		ref.clear();
		for(size_t i = 0; i < k; i++) ref.push_back((unsigned char)b[sizeof w + 1 + i]);
	}
};

static std::string keyname(const std::vector<int> &k) { std::string s; for(int x : k) s += char('0' + x); return s; }

// all key assignments ids -> {0..K-1}
static std::vector<std::vector<int>> assignments(int n, int K) {
	std::vector<std::vector<int>> out;
	std::vector<int> cur(n, 0);
	for(;;) {
		out.push_back(cur);
		int i = 0;
		while(i < n && ++cur[i] == K) cur[i++] = 0;
		if(i == n) break;
	}
	return out;
}

template<class H>
static Instance group_instance(const std::string &name, int n, std::vector<std::vector<int>> ks) {
	Instance inst;
	inst.name = name;
	inst.run = [=](const std::vector<CrashInfo> &cr) {
		InstResult total; total.name = name; total.fixpoint = true;
		for(auto &k : ks) {
			H h(n, k);
			InstResult r = bfs(h, name + "/" + keyname(k), BfsOptions{}, cr);
			for(auto &v : r.violations) v.instance = name + "/" + keyname(k);
			merge(total, r);
			if(past_deadline()) break;
		}
		return total;
	};
	inst.replay = [=](const std::string &) { return 3; };
	return inst;
}

static Instance monotone_instance(const std::string &name, int n) {
	Instance inst; inst.name = name;
	inst.run = [=](const std::vector<CrashInfo> &cr) {
		std::vector<int> k; for(int i = 0; i < n; i++) k.push_back(i);
		RbHarness<Tree, false> h(n, k); h.monotone = true;
		InstResult r = bfs(h, name, BfsOptions{}, cr);
		for(auto &v : r.violations) v.instance = name;
		return r;
	};
	inst.replay = [=](const std::string &) { return 3; };
	return inst;
}

static std::vector<Instance> mk(const std::string &tier) {
	std::vector<Instance> v;
	bool th = tier == "thorough";
	v.push_back(monotone_instance("rb-grow-then-shrink-N" + std::to_string(th ? 13 : 11), th ? 13 : 11));
	int N = th ? 6 : 5, K = 3;
	auto all = assignments(N, K);
	int groups = th ? 27 : 9;
	for(int g = 0; g < groups; g++) {
		std::vector<std::vector<int>> part;
		for(size_t i = g; i < all.size(); i += groups) part.push_back(all[i]);
		v.push_back(group_instance<RbHarness<Tree, false>>("rb-N" + std::to_string(N) + "K3-g" + std::to_string(g), N, part));
	}
	// distinct keys, larger pool: ascending, descending, mixed
	int D = th ? 8 : 7;
	std::vector<std::vector<int>> shapes;
	{ std::vector<int> a; for(int i = 0; i < D; i++) a.push_back(i); shapes.push_back(a); }
	{ std::vector<int> a; for(int i = 0; i < D; i++) a.push_back(D - i); shapes.push_back(a); }
	{ std::vector<int> a; for(int i = 0; i < D; i++) a.push_back((i * 5) % D); shapes.push_back(a); }
	for(size_t s = 0; s < shapes.size(); s++)
		v.push_back(group_instance<RbHarness<Tree, false>>("rb-distinct-N" + std::to_string(D) + "-" + std::to_string(s), D, {shapes[s]}));
	// stateful comparator (descending), duplicates included
	{ std::vector<std::vector<int>> part; for(size_t i = 0; i < all.size(); i += (th ? 9 : 27)) part.push_back(all[i]); v.push_back(group_instance<RbHarness<DTree, false>>("rb-stateful-comparator-N" + std::to_string(N), N, part)); }
	int ON = th ? 8 : 7;
	v.push_back(group_instance<RbHarness<OTree, true>>("rborder-N" + std::to_string(ON), ON, {std::vector<int>(ON, 0)}));
	return v;
}

int main(int argc, char **argv) {
	// replay: instance name is "<group>/<keys>"; decode keys from the name
	if(argc >= 5 && std::string(argv[1]) == "replay") {
		std::string name = argv[3];
		size_t sl = name.find('/');
		if(sl == std::string::npos) { fprintf(stderr, "replay needs <group>/<keys>\n"); return 3; }
		std::string ks = name.substr(sl + 1);
		std::vector<int> keys; for(char c : ks) keys.push_back(c - '0');
		if(name.rfind("rborder", 0) == 0) { RbHarness<OTree, true> h((int)keys.size(), keys); return replay(h, argv[4]) ? 1 : 0; }
		RbHarness<Tree, false> h((int)keys.size(), keys); return replay(h, argv[4]) ? 1 : 0;
	}
	return harness_main(argc, argv, mk);
}
