// C17 (+C16): optional / expected / variant / manual_box / tuple as value holders.
// Two slots per type; every operation in every combination of source and destination state
// (BFS to fixpoint: the state space is a few hundred states).  Reference: a tiny explicit model
// (engaged flag / alternative / error + value) mirroring std::optional / std::variant semantics.
#include "../engine/seqmc.hpp"
#include "../engine/world.hpp"
#include <frg/optional.hpp>
#include <frg/expected.hpp>
#include <frg/variant.hpp>
#include <frg/manual_box.hpp>
#include <frg/tuple.hpp>
#include <frg/eternal.hpp>
#include <tuple>
#include <string>
#include <optional>
#include <variant>

using namespace verif;

static constexpr int MOVED = -7;
template<class E> constexpr bool is_tracked = std::is_base_of_v<Tracked, E>;
template<class E> int moved_value(int v) { return (is_tracked<E> && !std::is_same_v<E, CopyOnly>) ? MOVED : v; }
static uint32_t mk(uint32_t k, uint32_t a, uint32_t v = 0) { return k | a << 8 | v << 12; }

// An element with an observable use count, like shared_ptr::use_count(): every live element of value v counts once in
// Counted::uses[v].  A holder that runs a destructor its standard counterpart does not run (on an element that is already
// dead, or on storage that never held one) makes the count differ from std::optional<shared_ptr>'s, which the state oracle
// compares.  Copy-only (a move copies), values 1 and 2.
struct Counted {
	static inline int uses[4] = {0, 0, 0, 0};
	static inline bool bad_destroy = false;
	int v;
	Counted(int x) : v(x) { uses[v & 3]++; }
	Counted(const Counted &o) : v(o.v) { uses[v & 3]++; }
	Counted &operator=(const Counted &o) { uses[v & 3]--; v = o.v; uses[v & 3]++; return *this; }
	~Counted() { if(v < 1 || v > 2) bad_destroy = true; else uses[v]--; }    // (leaves v in place: a second destructor counts again)
};
inline int val(const Counted &c) { return c.v; }

// ------------------------------------------------------------------------------------------
template<class E, bool Copyable, bool Conv>
struct OptHarness : HarnessBase {
	using O = frg::optional<E>;
	alignas(16) unsigned char store[2][sizeof(O)];
	bool alive[2] = {false, false};
	struct M { bool on = false; int v = 0; bool operator==(const M &) const = default; } ref[2];
	const char *name;
	OptHarness(const char *n) : name(n) {}
	const char *prop() const { return wanted_prop() == "C16" ? "C16" : "C17"; }   // C16 runs this harness too: a crash, sanitizer report or assertion then counts for it
	O &s(int a) { return *reinterpret_cast<O *>(store[a]); }
	void reset() { world_reset(); if constexpr(std::is_same_v<E, Counted>) { for(int &u : Counted::uses) u = 0; Counted::bad_destroy = false; } for(int a = 0; a < 2; a++) { memset(store[a], 0xA5, sizeof(O)); new(store[a]) O; alive[a] = true; ref[a] = M{}; } }
	enum { C_DEFAULT, C_NULLOPT, C_CREF, C_RVAL, C_CONV, C_COPY, C_MOVE, A_COPY, A_MOVE, A_SELF, A_NULLOPT, A_VALUE, A_CONV_C, A_CONV_M, EMPLACE, MUTATE, NK };
	void ops(std::vector<uint32_t> &out) {
		for(uint32_t a = 0; a < 2; a++) {
			out.push_back(mk(C_DEFAULT, a)); out.push_back(mk(C_NULLOPT, a));
			for(uint32_t v = 1; v <= 2; v++) {
				if(Copyable) out.push_back(mk(C_CREF, a, v));
				out.push_back(mk(C_RVAL, a, v)); out.push_back(mk(C_CONV, a, v));
				out.push_back(mk(A_VALUE, a, v)); out.push_back(mk(EMPLACE, a, v));
				if(Conv) { out.push_back(mk(A_CONV_C, a, v)); out.push_back(mk(A_CONV_M, a, v)); }
				if(ref[a].on) out.push_back(mk(MUTATE, a, v));
			}
			if(Conv) { out.push_back(mk(A_CONV_C, a, 0)); out.push_back(mk(A_CONV_M, a, 0)); }
			if(Copyable) { out.push_back(mk(C_COPY, a)); out.push_back(mk(A_COPY, a)); out.push_back(mk(A_SELF, a)); }
			out.push_back(mk(C_MOVE, a)); out.push_back(mk(A_MOVE, a)); out.push_back(mk(A_NULLOPT, a));
		}
	}
	std::string show_class(uint32_t op) {
		static const char *nm[] = {"ctor()", "ctor(null_opt)", "ctor(const T&)", "ctor(T&&)", "ctor(U&&)", "copy_construct", "move_construct", "copy_assign", "move_assign", "self_assign", "assign(null_opt)", "assign(value)", "assign(const optional<U>&)", "assign(optional<U>&&)", "emplace", "mutate"};
		return std::string(name) + "." + nm[op & 0xff];
	}
	std::string show(uint32_t op) { return show_class(op) + "(slot" + std::to_string((op >> 8) & 0xf) + ",v=" + std::to_string(op >> 12) + ")"; }
	void renew(int a) { s(a).~O(); alive[a] = false; }
	void apply(uint32_t op) {
		uint32_t k = op & 0xff, a = (op >> 8) & 0xf, b = 1 - a; int v = op >> 12;
		switch(k) {
		case C_DEFAULT: renew(a); new(store[a]) O(); alive[a] = true; ref[a] = {}; break;
		case C_NULLOPT: renew(a); new(store[a]) O(frg::null_opt); alive[a] = true; ref[a] = {}; break;
		case C_CREF: if constexpr(Copyable) { renew(a); E e(v); const E &ce = e; new(store[a]) O(ce); alive[a] = true; ref[a] = {true, v}; } break;
		case C_RVAL: { renew(a); E e(v); new(store[a]) O(std::move(e)); alive[a] = true; ref[a] = {true, v}; break; }
		case C_CONV: { renew(a); new(store[a]) O(v); alive[a] = true; ref[a] = {true, v}; break; }
		case C_COPY: if constexpr(Copyable) { renew(a); new(store[a]) O(static_cast<const O &>(s(b))); alive[a] = true; ref[a] = ref[b]; } break;
		case C_MOVE: { renew(a); new(store[a]) O(std::move(s(b))); alive[a] = true; ref[a] = ref[b]; if(ref[b].on) ref[b].v = moved_value<E>(ref[b].v); break; }
		case A_COPY: if constexpr(Copyable) { O &r = (s(a) = static_cast<const O &>(s(b))); if(&r != &s(a)) throw Violation{"C17", show_class(op) + ":result", "assignment does not return *this"}; ref[a] = ref[b]; } break;
		case A_SELF: if constexpr(Copyable) { const O &x = s(a); s(a) = x; } break;
		case A_MOVE: { O &r = (s(a) = std::move(s(b))); if(&r != &s(a)) throw Violation{"C17", show_class(op) + ":result", "assignment does not return *this"}; ref[a] = ref[b]; if(ref[b].on) ref[b].v = moved_value<E>(ref[b].v); break; }
		case A_NULLOPT: s(a) = frg::null_opt; ref[a] = {}; break;
		case A_VALUE: { E e(v); s(a) = std::move(e); ref[a] = {true, v}; break; }
		case A_CONV_C: if constexpr(Conv) { frg::optional<int> src; if(v) src = frg::optional<int>(v); const frg::optional<int> &cs = src; s(a) = cs; ref[a] = v ? M{true, v} : M{}; } break;
		case A_CONV_M: if constexpr(Conv) { frg::optional<int> src; if(v) src = frg::optional<int>(v); s(a) = std::move(src); ref[a] = v ? M{true, v} : M{}; } break;
		case EMPLACE: s(a).emplace(v); ref[a] = {true, v}; break;
		case MUTATE: { *s(a) = E(v); ref[a].v = v; break; }
		}
	}
	void check_state() {
		for(int a = 0; a < 2; a++) {
			O &x = s(a); const O &cx = x; std::string N = name;
			if(bool(x) != ref[a].on || x.has_value() != ref[a].on) throw Violation{"C17", N + ":engaged", "engaged state differs from the reference"};
			if(ref[a].on) {
				E *p = &*x;
				if((void *)p < (void *)&x || (void *)p >= (void *)(&x + 1)) throw Violation{"C17", N + ":address", "operator* designates an object outside the holder"};
				if(val(*p) != ref[a].v) throw Violation{"C17", N + ":value", "held value " + std::to_string(val(*p)) + " differs from the reference " + std::to_string(ref[a].v)};
				if(x.operator->() != p || &x.value() != p || &cx.value() != p || &*cx != p) throw Violation{"C17", N + ":accessors", "accessors designate different objects"};
				{ E &&rr = std::move(x).value(); const E &&crr = std::move(cx).value(); if(&rr != p || &crr != p) throw Violation{"C17", N + ":accessors", "value() && designates a different object"}; }
				if constexpr(std::is_same_v<E, int>) {
					if(!(x == ref[a].v) || (x != ref[a].v) || !(ref[a].v == x) || (x == ref[a].v + 1) || !(x < ref[a].v + 1) || (x < ref[a].v)) throw Violation{"C17", N + ":compare", "comparison operators disagree with the held value"};
				}
			} else {
				if constexpr(std::is_same_v<E, int>) { if((x == 1) || !(x != 1) || !(x < 1)) throw Violation{"C17", N + ":compare-empty", "comparison operators on an empty optional"}; }
			}
		}
		if constexpr(std::is_same_v<E, Counted>) {
			if(Counted::bad_destroy) throw Violation{"C17", std::string(name) + ":use-count", "an element destructor ran on storage that does not hold an element (the standard type runs none there)"};
			for(int v = 1; v <= 2; v++) {
				int want = 0; for(int a = 0; a < 2; a++) if(ref[a].on && ref[a].v == v) want++;
				if(Counted::uses[v] != want) throw Violation{"C17", std::string(name) + ":use-count", "use count of value " + std::to_string(v) + " is " + std::to_string(Counted::uses[v]) + ", with the standard type it is " + std::to_string(want) + " (an element was destroyed twice, or not at all)"};
			}
		}
		if(res) res->outcomes.insert(std::string(ref[0].on ? "on" : "off") + "/" + (ref[1].on ? "on" : "off"));
	}
	void final_check() { for(int a = 0; a < 2; a++) if(alive[a]) { s(a).~O(); alive[a] = false; } raise_pending(); world_check_empty(name); }
	void canon(std::string &out) { world_canon(out); GraphCanon g; for(int a = 0; a < 2; a++) if(alive[a]) g.root(store[a], sizeof(O)); g.emit(out); for(int a = 0; a < 2; a++) { out.push_back(ref[a].on ? 'E' : 'n'); out += std::to_string(ref[a].v); out.push_back(','); } }
};

// ------------------------------------------------------------------------------------------
enum class Err { ok = 0, a = 1, b = 2 };
enum class Err2 { ok = 0 };
template<class E>
struct ExpHarness : HarnessBase {
	using X = frg::expected<Err, E>;
	alignas(16) unsigned char store[2][sizeof(X)];
	bool alive[2] = {false, false};
	struct M { int err = 0; int v = 0; } ref[2];
	const char *name;
	ExpHarness(const char *n) : name(n) {}
	const char *prop() const { return wanted_prop() == "C16" ? "C16" : "C17"; }   // C16 runs this harness too: a crash, sanitizer report or assertion then counts for it
	X &s(int a) { return *reinterpret_cast<X *>(store[a]); }
	void reset() { world_reset(); for(int a = 0; a < 2; a++) { memset(store[a], 0xA5, sizeof(X)); new(store[a]) X; alive[a] = true; ref[a] = M{}; } }
	enum { C_DEFAULT, C_SUCCESS, C_ERR, C_VAL, C_COPY, C_MOVE, A_COPY, A_MOVE, A_ERR, A_VAL, UNWRAP, MAP, MAP_ERR, A_SELF_COPY, A_ALIAS_COPY };
	void ops(std::vector<uint32_t> &out) {
		for(uint32_t a = 0; a < 2; a++) {
			out.push_back(mk(C_DEFAULT, a)); out.push_back(mk(C_SUCCESS, a));
			for(uint32_t v = 1; v <= 2; v++) { out.push_back(mk(C_ERR, a, v)); out.push_back(mk(C_VAL, a, v)); out.push_back(mk(A_ERR, a, v)); out.push_back(mk(A_VAL, a, v)); }
			out.push_back(mk(C_COPY, a)); out.push_back(mk(C_MOVE, a)); out.push_back(mk(A_COPY, a)); out.push_back(mk(A_MOVE, a));
			out.push_back(mk(A_SELF_COPY, a)); out.push_back(mk(A_ALIAS_COPY, a));
			if(!ref[a].err) out.push_back(mk(UNWRAP, a));
			out.push_back(mk(MAP, a)); out.push_back(mk(MAP_ERR, a));
		}
	}
	std::string show_class(uint32_t op) {
		static const char *nm[] = {"ctor()", "ctor(success)", "ctor(E)", "ctor(T)", "copy_construct", "move_construct", "copy_assign", "move_assign", "assign(E)", "assign(T)", "unwrap", "map", "map_error", "self_copy_assign", "copy_assign_through_alias"};
		return std::string(name) + "." + nm[op & 0xff];
	}
	std::string show(uint32_t op) { return show_class(op) + "(slot" + std::to_string((op >> 8) & 0xf) + ",v=" + std::to_string(op >> 12) + ")"; }
	void renew(int a) { s(a).~X(); alive[a] = false; }
	void moved(int b) { if(!ref[b].err) ref[b].v = moved_value<E>(ref[b].v); }
	void apply(uint32_t op) {
		uint32_t k = op & 0xff, a = (op >> 8) & 0xf, b = 1 - a; int v = op >> 12;
		switch(k) {
		case C_DEFAULT: renew(a); new(store[a]) X(); alive[a] = true; ref[a] = {0, 0}; break;
		case C_SUCCESS: renew(a); new(store[a]) X(frg::success); alive[a] = true; ref[a] = {0, 0}; break;
		case C_ERR: renew(a); new(store[a]) X(Err(v)); alive[a] = true; ref[a] = {v, 0}; break;
		case C_VAL: { renew(a); new(store[a]) X(E(v)); alive[a] = true; ref[a] = {0, v}; break; }
		case C_COPY: renew(a); new(store[a]) X(static_cast<const X &>(s(b))); alive[a] = true; ref[a] = ref[b]; break;
		case C_MOVE: renew(a); new(store[a]) X(std::move(s(b))); alive[a] = true; ref[a] = ref[b]; moved(b); break;
		case A_COPY: { X &r = (s(a) = static_cast<const X &>(s(b))); if(&r != &s(a)) throw Violation{"C17", show_class(op) + ":result", "copy assignment does not return *this"}; ref[a] = ref[b]; break; }
		case A_MOVE: { X &r = (s(a) = std::move(s(b))); if(&r != &s(a)) throw Violation{"C17", show_class(op) + ":result", "move assignment does not return *this"}; ref[a] = ref[b]; moved(b); break; }
		case A_SELF_COPY: { const X &x = s(a); s(a) = x; break; }                 // value and state must be unchanged
		case A_ALIAS_COPY: { X *p = &s(a); const X *q = p; *p = *q; break; }
		case A_ERR: s(a) = X(Err(v)); ref[a] = {v, 0}; break;
		case A_VAL: s(a) = X(E(v)); ref[a] = {0, v}; break;
		case UNWRAP: { E e = s(a).unwrap(); if(val(e) != ref[a].v) throw Violation{"C17", show_class(op) + ":value", "unwrap() returned the wrong value"}; moved(a); break; }
		case MAP: {
			auto r = s(a).map([](E e) { return val(e) + 10; });
			if(ref[a].err) { if(r || r.error() != Err(ref[a].err)) throw Violation{"C17", show_class(op) + ":error", "map() did not pass the error through"}; }
			else { if(!r || r.value() != ref[a].v + 10) throw Violation{"C17", show_class(op) + ":value", "map() did not apply the function to the value"}; moved(a); }
			break;
		}
		case MAP_ERR: {
			auto r = s(a).map_error([](Err e) { return Err2(int(e) + 100); });
			if(ref[a].err) { if(r || int(r.error()) != ref[a].err + 100) throw Violation{"C17", show_class(op) + ":error", "map_error() did not map the error"}; }
			else { if(!r || val(r.value()) != ref[a].v) throw Violation{"C17", show_class(op) + ":value", "map_error() did not pass the value through"}; moved(a); }
			break;
		}
		}
	}
	void check_state() {
		for(int a = 0; a < 2; a++) {
			X &x = s(a); const X &cx = x; std::string N = name;
			if(bool(x) != (ref[a].err == 0)) throw Violation{"C17", N + ":state", "error/value state differs from the reference"};
			if(int(x.maybe_error()) != ref[a].err) throw Violation{"C17", N + ":maybe_error", "maybe_error() differs from the reference"};
			if(ref[a].err) { if(int(x.error()) != ref[a].err) throw Violation{"C17", N + ":error", "error() differs from the reference"}; }
			else {
				E *p = &x.value();
				if((void *)p < (void *)&x || (void *)p >= (void *)(&x + 1)) throw Violation{"C17", N + ":address", "value() designates an object outside the holder"};
				if(val(*p) != ref[a].v || &cx.value() != p) throw Violation{"C17", N + ":value", "held value differs from the reference"};
			}
		}
		if(res) res->outcomes.insert("err=" + std::to_string(ref[0].err) + "/" + std::to_string(ref[1].err));
	}
	void final_check() { for(int a = 0; a < 2; a++) if(alive[a]) { s(a).~X(); alive[a] = false; } raise_pending(); world_check_empty(name); }
	void canon(std::string &out) { world_canon(out); GraphCanon g; for(int a = 0; a < 2; a++) if(alive[a]) g.root(store[a], sizeof(X)); g.emit(out); for(int a = 0; a < 2; a++) out += std::to_string(ref[a].err) + ":" + std::to_string(ref[a].v) + ","; }
};

// ------------------------------------------------------------------------------------------
struct TrackedB : Tracked { TrackedB() = default; TrackedB(int x) : Tracked(x) {} };
// an over-aligned, large alternative that comes LAST in a non-monotone type list (size 16, 1, 64; alignment 8, 1, 32)
struct alignas(32) BigT : Tracked { char pad[40]; BigT() = default; BigT(int x) : Tracked(x) { memset(pad, 0x42, sizeof pad); } };
inline int val(const BigT &b) { for(char c : b.pad) if(c != 0x42) return -12345; return b.get(); }
template<class A0, class A1, class A2>
struct VarHarness : HarnessBase {
	using V = frg::variant<A0, A1, A2>;
	const char *name;
	VarHarness(const char *n) : name(n) {}
	alignas(64) unsigned char store[2][sizeof(V)];
	bool alive[2] = {false, false};
	struct M { int tag = -1; int v = 0; } ref[2];
	const char *prop() const { return wanted_prop() == "C16" ? "C16" : "C17"; }   // C16 runs this harness too: a crash, sanitizer report or assertion then counts for it
	V &s(int a) { return *reinterpret_cast<V *>(store[a]); }
	void reset() { world_reset(); for(int a = 0; a < 2; a++) { memset(store[a], 0xA5, sizeof(V)); new(store[a]) V; alive[a] = true; ref[a] = M{}; } }
	enum { C_DEFAULT, C_ALT, C_COPY, C_MOVE, A_COPY, A_MOVE, A_SELF, A_ALT, A_EMPTY, EMPLACE, MUTATE };
	void ops(std::vector<uint32_t> &out) {
		for(uint32_t a = 0; a < 2; a++) {
			out.push_back(mk(C_DEFAULT, a));
			for(uint32_t t = 0; t < 3; t++) for(uint32_t v = 1; v <= 2; v++) { uint32_t tv = t * 4 + v; out.push_back(mk(C_ALT, a, tv)); out.push_back(mk(A_ALT, a, tv)); out.push_back(mk(EMPLACE, a, tv)); }
			out.push_back(mk(C_COPY, a)); out.push_back(mk(C_MOVE, a)); out.push_back(mk(A_COPY, a)); out.push_back(mk(A_MOVE, a)); out.push_back(mk(A_SELF, a)); out.push_back(mk(A_EMPTY, a));
			if(ref[a].tag >= 0) out.push_back(mk(MUTATE, a, 2));
		}
	}
	std::string show_class(uint32_t op) {
		static const char *nm[] = {"ctor()", "ctor(X)", "copy_construct", "move_construct", "copy_assign", "move_assign", "self_assign", "assign(X)", "assign(empty)", "emplace", "apply-mutate"};
		return std::string(name) + "." + nm[op & 0xff];
	}
	std::string show(uint32_t op) { uint32_t tv = op >> 12; return show_class(op) + "(slot" + std::to_string((op >> 8) & 0xf) + ",alt=" + std::to_string(tv / 4) + ",v=" + std::to_string(tv % 4) + ")"; }
	void renew(int a) { s(a).~V(); alive[a] = false; }
	void moved(int b) { if((ref[b].tag == 0 && is_tracked<A0>) || (ref[b].tag == 1 && is_tracked<A1>) || (ref[b].tag == 2 && is_tracked<A2>)) ref[b].v = MOVED; }
	V make(int t, int v) { if(t == 0) return V(A0(v)); if(t == 1) return V(A1(v)); return V(A2(v)); }
	void apply(uint32_t op) {
		uint32_t k = op & 0xff, a = (op >> 8) & 0xf, b = 1 - a; int tv = op >> 12, t = tv / 4, v = tv % 4;
		switch(k) {
		case C_DEFAULT: renew(a); new(store[a]) V(); alive[a] = true; ref[a] = {}; break;
		case C_ALT: renew(a); if(t == 0) new(store[a]) V(A0(v)); else if(t == 1) new(store[a]) V(A1(v)); else new(store[a]) V(A2(v)); alive[a] = true; ref[a] = {t, v}; break;
		case C_COPY: renew(a); new(store[a]) V(static_cast<const V &>(s(b))); alive[a] = true; ref[a] = ref[b]; break;
		case C_MOVE: renew(a); new(store[a]) V(std::move(s(b))); alive[a] = true; ref[a] = ref[b]; moved(b); break;
		case A_COPY: { V &r = (s(a) = static_cast<const V &>(s(b))); if(&r != &s(a)) throw Violation{"C17", "variant.copy_assign:result", "assignment does not return *this"}; ref[a] = ref[b]; break; }
		case A_MOVE: s(a) = std::move(s(b)); ref[a] = ref[b]; moved(b); break;
		case A_SELF: { const V &x = s(a); s(a) = x; break; }
		case A_ALT: s(a) = make(t, v); ref[a] = {t, v}; break;
		case A_EMPTY: s(a) = V(); ref[a] = {}; break;
		case EMPLACE: if(t == 0) s(a).template emplace<A0>(v); else if(t == 1) s(a).template emplace<A1>(v); else s(a).template emplace<A2>(v); ref[a] = {t, v}; break;
		case MUTATE: {
			int r = s(a).apply([&](auto &x) -> int { x = std::remove_reference_t<decltype(x)>(v); return 5; });
			if(r != 5) throw Violation{"C17", "variant.apply:result", "apply() did not return the functor's result"};
			ref[a].v = v; break;
		}
		}
	}
	void check_state() {
		for(int a = 0; a < 2; a++) {
			V &x = s(a); const V &cx = x;
			if(bool(x) != (ref[a].tag >= 0)) throw Violation{"C17", "variant:engaged", "engaged state differs from the reference"};
			size_t want = ref[a].tag < 0 ? V::invalid_tag : (size_t)ref[a].tag;
			if(x.tag() != want) throw Violation{"C17", "variant:tag", "tag() differs from the reference"};
			static_assert(V::template tag_of<A0>() == 0 && V::template tag_of<A1>() == 1 && V::template tag_of<A2>() == 2);
			if(x.template is<A0>() != (ref[a].tag == 0) || x.template is<A1>() != (ref[a].tag == 1) || x.template is<A2>() != (ref[a].tag == 2)) throw Violation{"C17", "variant:is", "is<X>() differs from the reference"};
			int got = 0; void *p = nullptr;
			if(ref[a].tag == 0) { got = val(x.template get<A0>()); p = &x.template get<A0>(); if(&cx.template get<A0>() != p) throw Violation{"C17", "variant:const-get", "const get designates a different object"}; }
			if(ref[a].tag == 1) { got = val(x.template get<A1>()); p = &x.template get<A1>(); }
			if(ref[a].tag == 2) { got = val(x.template get<A2>()); p = &x.template get<A2>(); }
			if(ref[a].tag >= 0) {
				if(got != ref[a].v) throw Violation{"C17", "variant:value", "held value differs from the reference"};
				size_t asz = ref[a].tag == 0 ? sizeof(A0) : ref[a].tag == 1 ? sizeof(A1) : sizeof(A2), aal = ref[a].tag == 0 ? alignof(A0) : ref[a].tag == 1 ? alignof(A1) : alignof(A2);
				if(p < (void *)&x || (char *)p + asz > (char *)(&x + 1)) throw Violation{"C17", "variant:address", "the held alternative does not lie wholly inside the variant object (storage too small)"};
				if((uintptr_t)p % aal) throw Violation{"C17", "variant:alignment", "the held alternative is misaligned inside the variant"};
				int viaapply = x.apply([](auto &y) -> int { return val(y); });
				if(viaapply != ref[a].v) throw Violation{"C17", "variant:apply", "apply() visited the wrong alternative"};
				int viaconst = cx.const_apply([](const auto &y) -> int { return val(y); });
				if(viaconst != ref[a].v) throw Violation{"C17", "variant:const_apply", "const_apply() visited the wrong alternative"};
			}
		}
		if(res) res->outcomes.insert("tags=" + std::to_string(ref[0].tag) + "/" + std::to_string(ref[1].tag));
	}
	void final_check() { for(int a = 0; a < 2; a++) if(alive[a]) { s(a).~V(); alive[a] = false; } raise_pending(); world_check_empty(name); }
	void canon(std::string &out) { world_canon(out); GraphCanon g; for(int a = 0; a < 2; a++) if(alive[a]) g.root(store[a], sizeof(V)); g.emit(out); for(int a = 0; a < 2; a++) out += std::to_string(ref[a].tag) + ":" + std::to_string(ref[a].v) + ","; }
};

// ------------------------------------------------------------------------------------------
struct BoxHarness : HarnessBase {
	using B = frg::manual_box<Tracked>;
	alignas(16) unsigned char store[2][sizeof(B)];
	struct M { bool on = false; int v = 0; } ref[2];
	const char *prop() const { return wanted_prop() == "C16" ? "C16" : "C17"; }   // C16 runs this harness too: a crash, sanitizer report or assertion then counts for it
	B &s(int a) { return *reinterpret_cast<B *>(store[a]); }
	void reset() { world_reset(); for(int a = 0; a < 2; a++) { memset(store[a], 0xff, sizeof(B)); new(store[a]) B(); ref[a] = M{}; } }
	enum { INIT, CONSTRUCT_WITH, DESTRUCT, MUTATE };
	void ops(std::vector<uint32_t> &out) {
		for(uint32_t a = 0; a < 2; a++) {
			if(!ref[a].on) for(uint32_t v = 1; v <= 2; v++) { out.push_back(mk(INIT, a, v)); out.push_back(mk(CONSTRUCT_WITH, a, v)); }
			else { out.push_back(mk(DESTRUCT, a)); out.push_back(mk(MUTATE, a, 1)); out.push_back(mk(MUTATE, a, 2)); }
		}
	}
	std::string show_class(uint32_t op) { static const char *nm[] = {"initialize", "construct_with", "destruct", "mutate"}; return std::string("manual_box.") + nm[op & 0xff]; }
	std::string show(uint32_t op) { return show_class(op) + "(slot" + std::to_string((op >> 8) & 0xf) + ",v=" + std::to_string(op >> 12) + ")"; }
	void apply(uint32_t op) {
		uint32_t k = op & 0xff, a = (op >> 8) & 0xf; int v = op >> 12;
		switch(k) {
		case INIT: s(a).initialize(v); ref[a] = {true, v}; break;
		case CONSTRUCT_WITH: s(a).construct_with([&] { return Tracked(v); }); ref[a] = {true, v}; break;
		case DESTRUCT: s(a).destruct(); ref[a] = {}; break;
		case MUTATE: *s(a) = Tracked(v); ref[a].v = v; break;
		}
	}
	void check_state() {
		for(int a = 0; a < 2; a++) {
			B &x = s(a);
			if(x.valid() != ref[a].on || bool(x) != ref[a].on) throw Violation{"C17", "manual_box:valid", "valid() differs from the reference"};
			if(ref[a].on) {
				Tracked *p = x.get();
				if((void *)p < (void *)&x || (void *)p >= (void *)(&x + 1)) throw Violation{"C17", "manual_box:address", "get() designates an object outside the box"};
				if(val(*p) != ref[a].v || x.operator->() != p || &*x != p) throw Violation{"C17", "manual_box:value", "held value differs from the reference"};
			}
		}
		if(res) res->outcomes.insert(std::string(ref[0].on ? "on" : "off") + "/" + (ref[1].on ? "on" : "off"));
	}
	// the box is manual: the owner destructs before dropping it
	void final_check() { for(int a = 0; a < 2; a++) if(ref[a].on) { s(a).destruct(); ref[a].on = false; } raise_pending(); world_check_empty("manual_box"); }
	void canon(std::string &out) { world_canon(out); GraphCanon g; for(int a = 0; a < 2; a++) g.root(store[a], sizeof(B)); g.emit(out); for(int a = 0; a < 2; a++) out += std::string(ref[a].on ? "E" : "n") + std::to_string(ref[a].v) + ","; }
};

// ------------------------------------------------------------------------------------------
// tuple: a fixed list of shapes, each compared with std::tuple (not a state machine).
#define TCHECK(cond, sig) do { r.evaluations++; if(!(cond)) r.add_violation({"C17", std::string("tuple:") + sig, "tuple check failed: " #cond}, sig); } while(0)
static InstResult tuple_checks() {
	InstResult r; r.name = "tuple-shapes"; r.fixpoint = true;
	world_reset();
	{
		for(int a = -1; a <= 2; a++) for(int b = 0; b <= 2; b++) for(int c = 1; c <= 2; c++) {
			frg::tuple<int, long, char> t(a, b, (char)c);
			std::tuple<int, long, char> st(a, b, (char)c);
			TCHECK(t.get<0>() == std::get<0>(st) && t.get<1>() == std::get<1>(st) && t.get<2>() == std::get<2>(st), "get-order");
			const auto &ct = t;
			TCHECK(&ct.get<1>() == &t.get<1>(), "const-get-identity");
			int sum = frg::apply([](int x, long y, char z) { return x * 100 + (int)y * 10 + z; }, ct);
			TCHECK(sum == a * 100 + b * 10 + c, "apply-const-order");
			int sum2 = frg::apply([](int x, long y, char z) { return x * 100 + (int)y * 10 + z; }, frg::tuple<int, long, char>(a, b, (char)c));
			TCHECK(sum2 == a * 100 + b * 10 + c, "apply-rvalue-order");
			auto cat = frg::tuple_cat(frg::tuple<int>(a), frg::tuple<long, char>(b, (char)c), frg::tuple<>(), frg::tuple<int>(7));
			TCHECK(cat.get<0>() == a && cat.get<1>() == b && cat.get<2>() == (char)c && cat.get<3>() == 7, "tuple_cat-order");
			static_assert(std::is_same_v<decltype(cat), frg::tuple<int, long, char, int>>);
			frg::tuple<long, long, int> conv(t);   // converting copy
			TCHECK(conv.get<0>() == a && conv.get<1>() == b && conv.get<2>() == c, "converting-copy");
			frg::tuple<long, long, int> convm(frg::tuple<int, long, char>(a, b, (char)c));
			TCHECK(convm.get<0>() == a && convm.get<1>() == b && convm.get<2>() == c, "converting-move");
			auto mt = frg::make_tuple(a, (long)b);
			TCHECK(mt.get<0>() == a && mt.get<1>() == b, "make_tuple");
			r.distinct++;
		}
		// references
		int x = 1, y = 2;
		frg::tuple<int &, int &> rt(x, y);
		TCHECK(&rt.get<0>() == &x && &rt.get<1>() == &y, "reference-identity");
		rt.get<0>() = 5;
		TCHECK(x == 5, "reference-write-through");
		frg::tuple<int &, int> mixed(y, 3);
		TCHECK(&mixed.get<0>() == &y && mixed.get<1>() == 3, "mixed-reference");
		// (tuple_cat of tuples holding non-const lvalue references does not compile in frigg; const references do)
		auto catr = frg::tuple_cat(frg::tuple<const int &>(x), frg::tuple<const int &>(y));
		TCHECK(&catr.get<0>() == &x && &catr.get<1>() == &y, "tuple_cat-reference-identity");
		int got = frg::apply([&](int &p, int &q) { return (&p == &x) * 2 + (&q == &y); }, static_cast<const frg::tuple<int &, int &> &>(rt));
		TCHECK(got == 3, "apply-reference-identity");
		// move-only and tracked elements: exactly-once lifetimes
		{
			frg::tuple<MoveOnly, Tracked> mo(MoveOnly(1), Tracked(2));
			TCHECK(val(mo.get<0>()) == 1 && val(mo.get<1>()) == 2, "moveonly-values");
			int s = frg::apply([](MoveOnly a, Tracked b) { return val(a) * 10 + val(b); }, std::move(mo));
			TCHECK(s == 12, "apply-moveonly");
			frg::tuple<Tracked, Tracked, Tracked, Tracked> four(Tracked(1), Tracked(2), Tracked(1), Tracked(2));
			TCHECK(val(four.get<0>()) == 1 && val(four.get<1>()) == 2 && val(four.get<2>()) == 1 && val(four.get<3>()) == 2, "four-values");
			frg::tuple<Tracked, Tracked, Tracked, Tracked> copy(four);
			TCHECK(val(copy.get<3>()) == 2 && val(four.get<3>()) == 2, "copy-preserves-source");
			auto cat2 = frg::tuple_cat(frg::tuple<Tracked>(Tracked(1)), frg::tuple<MoveOnly>(MoveOnly(2)));
			TCHECK(val(cat2.get<0>()) == 1 && val(cat2.get<1>()) == 2, "tuple_cat-moveonly");
		}
		try { raise_pending(); world_check_empty("tuple"); } catch(const Violation &v) { r.add_violation(v, "tuple shapes"); }
	}
	r.samples.push_back("tuple<int,long,char>(a,b,c) for a in -1..2, b in 0..2, c in 1..2: get/apply/tuple_cat/converting ctors vs std::tuple; reference and move-only shapes");
	r.states = r.distinct; r.transitions = r.evaluations;
	return r;
}


// Construction forms: the in-place constructors (optional::emplace, variant::emplace, manual_box::initialize) must select
// the same constructor of the element type as the standard types do, i.e. direct-non-list-initialisation from the
// forwarded arguments.  The element type records which constructor ran; every argument shape up to three arguments.
struct CtorProbe {
	int which, sum;
	CtorProbe() : which(0), sum(0) {}
	explicit CtorProbe(int a) : which(1), sum(a) {}
	CtorProbe(int a, int b) : which(2), sum(a + b) {}
	CtorProbe(int a, int b, int c) : which(3), sum(a + b + c) {}
	CtorProbe(long a, char b) : which(4), sum((int)a + b) {}
	CtorProbe(std::initializer_list<int> l) : which(9), sum(0) { for(int x : l) sum += x; }
	CtorProbe(const CtorProbe &o) : which(o.which + 100), sum(o.sum) {}
	CtorProbe(CtorProbe &&o) : which(o.which + 200), sum(o.sum) {}
	CtorProbe &operator=(const CtorProbe &) = default;
	// copies/moves made while handing the probe back to the checker add 100/200: only the original constructor counts
	bool operator==(const CtorProbe &o) const { return which % 100 == o.which % 100 && sum == o.sum; }
};
static InstResult construction_forms() {
	InstResult r; r.name = "construction-forms"; r.complete = true;
	auto expect = [&](const char *what, const CtorProbe &got, const CtorProbe &want) {
		r.evaluations++; r.distinct++;
		if(!(got == want)) r.add_violation({"C17", std::string("construction-form:") + what, std::string(what) + " ran constructor #" + std::to_string(got.which % 100) + " (sum " + std::to_string(got.sum) + ") where the standard type runs #" + std::to_string(want.which % 100) + " (sum " + std::to_string(want.sum) + ")"}, what);
	};
	auto shapes = [&](auto &&with) {
		with("()", [](auto &&f) { return f(); });
		with("(int)", [](auto &&f) { return f(7); });
		with("(int,int)", [](auto &&f) { return f(3, 4); });
		with("(int,int,int)", [](auto &&f) { return f(1, 2, 3); });
		with("(long,char)", [](auto &&f) { return f(5L, 'x'); });
		with("(const T&)", [](auto &&f) { CtorProbe src(2, 2); return f(src); });
		with("(T&&)", [](auto &&f) { return f(CtorProbe(9, 1)); });
		with("(initializer_list)", [](auto &&f) { return f(std::initializer_list<int>{4, 5, 6}); });
	};
	shapes([&](const char *shape, auto call) {
		CtorProbe want = call([](auto &&...a) { std::optional<CtorProbe> o; o.emplace(std::forward<decltype(a)>(a)...); return *o; });
		expect((std::string("optional::emplace") + shape).c_str(), call([](auto &&...a) { frg::optional<CtorProbe> o; o.emplace(std::forward<decltype(a)>(a)...); return *o; }), want);
		expect((std::string("optional::emplace-over-engaged") + shape).c_str(), call([](auto &&...a) { frg::optional<CtorProbe> o{CtorProbe(1, 1, 1)}; o.emplace(std::forward<decltype(a)>(a)...); return *o; }), want);
		CtorProbe wantv = call([](auto &&...a) { std::variant<std::monostate, int, CtorProbe> v; v.emplace<CtorProbe>(std::forward<decltype(a)>(a)...); return std::get<CtorProbe>(v); });
		expect((std::string("variant::emplace") + shape).c_str(), call([](auto &&...a) { frg::variant<int, CtorProbe> v; v.emplace<CtorProbe>(std::forward<decltype(a)>(a)...); return v.get<CtorProbe>(); }), wantv);
		expect((std::string("variant::emplace-over-other") + shape).c_str(), call([](auto &&...a) { frg::variant<int, CtorProbe> v{5}; v.emplace<CtorProbe>(std::forward<decltype(a)>(a)...); return v.get<CtorProbe>(); }), wantv);
		expect((std::string("manual_box::initialize") + shape).c_str(), call([](auto &&...a) { frg::manual_box<CtorProbe> b; b.initialize(std::forward<decltype(a)>(a)...); CtorProbe c = *b; b.destruct(); return c; }), want);
	});
	// single-argument construction of the holders themselves
	{ CtorProbe src(2, 2); std::optional<CtorProbe> so(src); frg::optional<CtorProbe> fo(src); expect("optional(const T&)", *fo, *so); }
	{ std::optional<CtorProbe> so(CtorProbe(6, 1)); frg::optional<CtorProbe> fo(CtorProbe(6, 1)); expect("optional(T&&)", *fo, *so); }
	{ CtorProbe src(2, 2); frg::manual_box<CtorProbe> b; b.construct_with([&] { return CtorProbe(8, 1); }); CtorProbe c = *b; b.destruct(); r.evaluations++; r.distinct++; if(c.sum != 9 || (c.which % 100) != 2) r.add_violation({"C17", "construction-form:manual_box::construct_with", "construct_with did not store the functor's result"}, "construct_with"); (void)src; }
	r.samples.push_back("optional::emplace / variant::emplace / manual_box::initialize with 8 argument shapes against std::optional / std::variant: the selected constructor and its arguments");
	r.states = r.distinct; r.transitions = r.evaluations;
	return r;
}

// expected<E, void>, the FRG_TRY helper and eternal<T>: small closed state spaces, enumerated completely.
static frg::expected<Err, int> try_chain(frg::expected<Err, Tracked> in, frg::expected<Err> gate) {
	FRG_TRY(gate);
	Tracked t = FRG_TRY(std::move(in));
	return val(t) + 1;
}
// manual_box with static storage duration (what it is for): it is filled during static initialisation by an object that
// is initialised BEFORE it in this translation unit.  With std::optional (constant-initialised) the value is still there
// when main() runs; a box whose constructor runs as a dynamic initialiser afterwards would wipe it.
extern frg::manual_box<int> g_static_box;
extern frg::manual_box<std::pair<long, long>> g_static_box2;
struct EarlyFiller { EarlyFiller() { g_static_box.initialize(42); g_static_box2.initialize(7L, 9L); } };
static EarlyFiller g_early_filler;
frg::manual_box<int> g_static_box;
frg::manual_box<std::pair<long, long>> g_static_box2;

static InstResult small_holders() {
	InstResult r; r.name = "expected-void-try-eternal"; r.complete = true;
	auto bad = [&](const std::string &sig, const std::string &msg) { r.add_violation({"C17", sig, msg}, sig); };
	auto tick = [&] { r.evaluations++; r.distinct++; };
	// Converting assignment optional<T> = optional<U> whose source is the FIRST member of the object the destination holds
	// (it then sits at the destination's own address although it is another object of another type): the assignment must
	// still take place, exactly as with std::optional.
	{
		struct Outer {
			frg::optional<int> pending; int committed;
			Outer(int v) : committed(v) {}
			Outer &operator=(int v) { committed = v; return *this; }
		};
		struct OuterStd {
			std::optional<int> pending; int committed;
			OuterStd(int v) : committed(v) {}
			OuterStd &operator=(int v) { committed = v; return *this; }
		};
		for(int form = 0; form < 2; form++) for(int engaged = 0; engaged < 2; engaged++) {
			tick();
			frg::optional<Outer> o; o.emplace(1); std::optional<OuterStd> so; so.emplace(1);
			if(engaged) { o->pending = frg::optional<int>(42); so->pending = 42; }
			if((const void *)&o->pending != (const void *)&o) continue;   // (layout changed: the case no longer exists)
			if(form == 0) { o = o->pending; so = so->pending; } else { o = std::move(o->pending); so = std::move(so->pending); }
			if(bool(o) != so.has_value() || (o && o->committed != so->committed))
				bad("optional:converting-assign-from-own-first-member", std::string("optional<T> = ") + (form ? "move(" : "") + "held.first_member" + (form ? ")" : "") + " (an " + (engaged ? "engaged" : "empty") + " optional<U>): engaged/value differ from std::optional");
		}
	}
	tick();
	if(!g_static_box.valid() || *g_static_box != 42 || !g_static_box2.valid() || g_static_box2->first != 7 || g_static_box2->second != 9)
		bad("manual_box:static-initialisation", "a manual_box with static storage duration that was initialised during static initialisation (by an earlier object of the same translation unit) is empty or holds another value when main() runs");
	world_reset();
	// expected<E, void>: every state x every accessor
	for(int st = 0; st < 4; st++) {
		tick();
		frg::expected<Err> e = st == 0 ? frg::expected<Err>() : st == 1 ? frg::expected<Err>(frg::success) : frg::expected<Err>(st == 2 ? Err::a : Err::b);
		int want = st < 2 ? 0 : st - 1;
		if(bool(e) != (want == 0)) bad("expected<E,void>:bool", "operator bool disagrees with the constructed state");
		if(int(e.maybe_error()) != want) bad("expected<E,void>:maybe_error", "maybe_error() differs from the constructed state");
		if(want) { if(int(e.error()) != want) bad("expected<E,void>:error", "error() differs"); }
		else e.unwrap();
		auto m = e.map_error([](Err x) { return Err2(int(x) + 100); });
		if(want) { if(m || int(m.error()) != want + 100) bad("expected<E,void>:map_error", "map_error() did not map the error"); }
		else if(!m) bad("expected<E,void>:map_error", "map_error() turned success into an error");
		frg::expected<Err> c = e, d; d = e;
		if(int(c.maybe_error()) != want || int(d.maybe_error()) != want) bad("expected<E,void>:copy", "copy / assignment changed the state");
		// the accessors that assert must assert exactly in the other state
		bool p1 = false, p2 = false;
		try { (void)e.error(); } catch(const Panic &) { p1 = true; }
		try { e.unwrap(); } catch(const Panic &) { p2 = true; }
		if(p1 != (want == 0) || p2 != (want != 0)) bad("expected<E,void>:assertions", "error()/unwrap() assert in the wrong state");
	}
	// FRG_TRY: every combination of gate and input
	for(int gate = 0; gate < 3; gate++) for(int in = 0; in < 4; in++) {
		tick();
		frg::expected<Err> g = gate ? frg::expected<Err>(gate == 1 ? Err::a : Err::b) : frg::expected<Err>();
		auto res = in < 2 ? try_chain(frg::expected<Err, Tracked>(Tracked(in * 5 + 3)), g) : try_chain(frg::expected<Err, Tracked>(in == 2 ? Err::a : Err::b), g);
		int want_err = gate ? gate : in < 2 ? 0 : in - 1;
		if(int(res.maybe_error()) != want_err) bad("FRG_TRY:error", "FRG_TRY propagated error " + std::to_string(int(res.maybe_error())) + ", expected " + std::to_string(want_err));
		if(!want_err && res.value() != in * 5 + 4) bad("FRG_TRY:value", "FRG_TRY yielded the wrong value");
	}
	try { raise_pending(); world_check_empty("FRG_TRY"); } catch(const Violation &v) { r.add_violation(v, "FRG_TRY"); }
	// eternal<T>: constructs from forwarded arguments, the three accessors designate one object, and the destructor of
	// eternal never destroys it
	for(int v = 0; v < 3; v++) {
		tick();
		uint64_t d0 = life().destructions;
		Tracked *obj = nullptr;
		{
			frg::eternal<Tracked> e(v + 40);
			obj = &e.get();
			if(&*e != obj || e.operator->() != obj) bad("eternal:identity", "get(), operator* and operator-> designate different objects");
			if(val(*obj) != v + 40) bad("eternal:value", "eternal did not construct the object from its arguments");
			static_assert(std::is_trivially_destructible_v<frg::eternal<Tracked>>);
		}
		if(life().destructions != d0) bad("eternal:destroyed", "the object inside eternal<T> was destroyed");
		if(!life().live.count(obj)) bad("eternal:destroyed", "the object inside eternal<T> is no longer alive after eternal went out of scope");
		else obj->~Tracked();   // balance the registry
	}
	try { raise_pending(); world_check_empty("eternal"); } catch(const Violation &v) { r.add_violation(v, "eternal"); }
	// element types WITHOUT a user-provided default constructor (scalars, aggregates): constructing "from nothing" means
	// value-initialisation, also the second time round when the storage still holds the previous value
	{
		struct Pod { int id; long tag[3]; };
		struct Mixed { int id; std::string name; };
		for(int round = 0; round < 3; round++) {
			tick();
			frg::manual_box<int> bi; std::optional<int> oi;
			bi.initialize(42 + round); oi.emplace(42 + round); bi.destruct(); oi.reset(); bi.initialize(); oi.emplace();
			if(*bi != *oi) bad("manual_box:reinitialize:scalar", "manual_box<int>: initialize(v); destruct(); initialize() yields " + std::to_string(*bi) + ", std::optional yields " + std::to_string(*oi));
			bi.destruct();
			frg::manual_box<Pod> bp; bp.initialize(); bp->id = 7 + round; bp->tag[2] = 9; bp.destruct(); bp.initialize();
			if(bp->id != 0 || bp->tag[2] != 0) bad("manual_box:reinitialize:aggregate", "manual_box<aggregate>: a second initialize() left the previous member values in place");
			bp.destruct();
			frg::manual_box<Mixed> bm; bm.initialize(); bm->id = 5; bm->name = "x"; bm.destruct(); bm.initialize();
			if(bm->id != 0 || !bm->name.empty()) bad("manual_box:reinitialize:aggregate", "manual_box<{int, string}>: a second initialize() left the previous member values in place");
			bm.destruct();
			frg::optional<int> fo; fo.emplace(42 + round); fo = frg::null_opt; fo.emplace();
			if(*fo != 0) bad("optional:reemplace:scalar", "optional<int>: emplace(v); reset; emplace() does not yield 0");
			frg::variant<int, Pod> fv; fv.emplace<Pod>(); fv.get<Pod>().id = 3; fv.emplace<int>(); fv.emplace<Pod>();
			if(fv.get<Pod>().id != 0) bad("variant:reemplace:aggregate", "variant: emplace<aggregate>() after a previous value does not value-initialise");
			frg::eternal<Pod> fe; if(fe.get().id != 0 || fe.get().tag[1] != 0) bad("eternal:value-init", "eternal<aggregate>() is not value-initialised");
		}
	}
	r.samples.push_back("expected<E,void>: 4 states x bool/maybe_error/error/unwrap/map_error/copy/assign + asserting accessors; FRG_TRY: 3 gates x 4 inputs; eternal<Tracked>: identity of accessors, object survives the holder");
	r.states = r.distinct; r.transitions = r.evaluations;
	return r;
}

static std::vector<Instance> instances(const std::string &) {
	std::vector<Instance> v;
	v.push_back(bfs_instance<OptHarness<int, true, true>>("optional-int", BfsOptions{}, "optional<int>"));
	v.push_back(bfs_instance<OptHarness<Tracked, true, true>>("optional-tracked", BfsOptions{}, "optional<Tracked>"));
	v.push_back(bfs_instance<OptHarness<MoveOnly, false, false>>("optional-moveonly", BfsOptions{}, "optional<MoveOnly>"));
	v.push_back(bfs_instance<OptHarness<CopyOnly, true, false>>("optional-copyonly", BfsOptions{}, "optional<CopyOnly>"));
	v.push_back(bfs_instance<OptHarness<Counted, true, false>>("optional-use-counted", BfsOptions{}, "optional<Counted>"));
	v.push_back(bfs_instance<ExpHarness<Tracked>>("expected-tracked", BfsOptions{}, "expected<Err,Tracked>"));
	v.push_back(bfs_instance<ExpHarness<int>>("expected-int", BfsOptions{}, "expected<Err,int>"));
	v.push_back(bfs_instance<VarHarness<Tracked, TrackedB, int>>("variant", BfsOptions{}, "variant"));
	v.push_back(bfs_instance<VarHarness<Tracked, char, BigT>>("variant-mixed-sizes", BfsOptions{}, "variant<16B,1B,64B/align32>"));
	v.push_back(bfs_instance<BoxHarness>("manual_box", BfsOptions{}));
	Instance t; t.name = "tuple-shapes";
	t.run = [](const std::vector<CrashInfo> &) { return tuple_checks(); };
	t.replay = [](const std::string &) { InstResult r = tuple_checks(); for(auto &v : r.violations) printf("REPLAY-VIOLATION property=%s sig=%s: %s\n", v.prop.c_str(), v.sig.c_str(), v.msg.c_str()); return (int)r.violations.size(); };
	v.push_back(t);
	Instance c; c.name = "construction-forms";
	c.run = [](const std::vector<CrashInfo> &) { return construction_forms(); };
	c.replay = [](const std::string &) { InstResult r = construction_forms(); for(auto &v : r.violations) printf("REPLAY-VIOLATION property=%s sig=%s: %s\n", v.prop.c_str(), v.sig.c_str(), v.msg.c_str()); return (int)r.violations.size(); };
	v.push_back(c);
	Instance h; h.name = "expected-void-try-eternal";
	h.run = [](const std::vector<CrashInfo> &) { return small_holders(); };
	h.replay = [](const std::string &) { InstResult r = small_holders(); for(auto &v : r.violations) printf("REPLAY-VIOLATION property=%s sig=%s: %s\n", v.prop.c_str(), v.sig.c_str(), v.msg.c_str()); return (int)r.violations.size(); };
	v.push_back(h);
	return v;
}
int main(int argc, char **argv) { return harness_main(argc, argv, instances); }
