// C11 (engine A): QS domain protocol logic at whole-operation granularity.  1-3 agents, alphabet
// online/offline/quiescent_state/await_barrier/run, BFS over all histories to depth D.
// Oracle: a callback fires at most once, only inside run() of the registering agent, and only after
// every agent that was online at registration has since been inside quiescent_state() or offline();
// once it fires the library never touches the node again (the callback poisons it); bounded
// liveness: from every reached state a few fair rounds fire every pending callback of online agents.
#include "../engine/seqmc.hpp"
#include <frg/qs.hpp>

using namespace verif;

#if VERIF_ASAN
#define APOISON(p, n) __asan_poison_memory_region((p), (n))
#define AUNPOISON(p, n) __asan_unpoison_memory_region((p), (n))
#else
#define APOISON(p, n) ((void)0)
#define AUNPOISON(p, n) ((void)0)
#endif

struct CountMutex {
	int held = 0;
	void lock() { if(held) note("C11", "qs:mutex-relock", "the domain mutex was locked while already held (self-deadlock with a real mutex)"); held++; }
	void unlock() { if(!held) note("C11", "qs:mutex-unlock-free", "the domain mutex was unlocked while not held"); else held--; }
};
using Domain = frg::qs_domain<CountMutex>;
using Agent = frg::qs_agent<CountMutex>;

static constexpr int MAXA = 3, MAXN = 4;   // agents, nodes per agent
struct Node : frg::qs_node { int agent, idx; };

struct QsHarness;
static QsHarness *g_h = nullptr;

struct QsHarness : HarnessBase {
	static constexpr bool has_snapshot = true;
	int NA, NN;
	struct World {
		alignas(16) unsigned char dom[sizeof(Domain)];
		alignas(16) unsigned char agents[MAXA][sizeof(Agent)];
		alignas(16) unsigned char nodes[MAXA][MAXN][sizeof(Node)];
	} w;
	// reference / oracle state
	struct Ref {
		bool created[MAXA] = {}, online[MAXA] = {};
		int nused[MAXA] = {};                       // nodes handed to await so far
		unsigned char pending[MAXA][MAXN] = {};     // 1 = registered, 2 = fired
		unsigned char need[MAXA][MAXN] = {};        // bitmask of agents that still have to pass a quiescent state
		int running = -1;                           // agent currently inside run()
		unsigned char reused[MAXA] = {};            // a fired node of this agent has been registered again (at most once per agent)
	} r;
	bool reuse = false;   // alphabet includes handing a node whose callback has fired back to await_barrier() as it is
	uint64_t base = 0;    // fast-forward a fresh domain: its grace-period counter starts here instead of at 1
	QsHarness(int na, int nn, bool reuse_ = false, uint64_t base_ = 0) : NA(na), NN(nn), reuse(reuse_), base(base_) {}
	const char *prop() const { return "C11"; }
	Domain &dom() { return *reinterpret_cast<Domain *>(w.dom); }
	Agent &agent(int i) { return *reinterpret_cast<Agent *>(w.agents[i]); }
	Node &node(int i, int k) { return *reinterpret_cast<Node *>(w.nodes[i][k]); }

	static void on_grace(frg::qs_node *qn) {
		QsHarness &h = *g_h;
		Node *n = static_cast<Node *>(qn);
		int i = n->agent, k = n->idx;
		if(h.r.running != i) note("C11", "qs:callback-outside-run", "a callback was invoked outside run() of the registering agent");
		if(h.r.pending[i][k] == 2) note("C11", "qs:callback-twice", "a callback was invoked twice");
		else if(h.r.pending[i][k] != 1) note("C11", "qs:callback-unregistered", "a callback fired for a node that is not registered");
		if(h.r.need[i][k]) note("C11", "qs:callback-before-grace-period", "callback of agent " + std::to_string(i) + " fired although agent(s) mask " + std::to_string(h.r.need[i][k]) + " that were online at registration have not been inside quiescent_state()/offline() since");
		h.r.pending[i][k] = 2;
		// the node now belongs to the callback: free it (poison) so that any later touch by the library shows
		APOISON(n, sizeof(Node));
	}
	void reset() {
		g_h = this;
		AUNPOISON(&w, sizeof w);
		memset(&w, 0xA5, sizeof w);   // domain, agents and nodes are built in storage that is not all-zero
		new(w.dom) Domain;
		// (private members are reachable because this harness is built with -fno-access-control)
		if(base) { dom()._qs_counter.store(base, std::memory_order_relaxed); dom()._desired_qs_counter.store(base - 1, std::memory_order_relaxed); }
		r = Ref{};
		pending().reset();
	}
	enum { ONLINE, OFFLINE, QS, AWAIT, RUN, REAWAIT };
	static uint32_t mk(uint32_t k, uint32_t a) { return k | a << 8; }
	void ops(std::vector<uint32_t> &out) {
		for(uint32_t i = 0; i < (uint32_t)NA; i++) {
			// symmetry: agent i+1 is created only after agent i
			if(!r.created[i]) { if(i == 0 || r.created[i - 1]) out.push_back(mk(ONLINE, i)); continue; }
			if(!r.online[i]) { out.push_back(mk(ONLINE, i)); out.push_back(mk(RUN, i)); continue; }
			out.push_back(mk(QS, i));
			out.push_back(mk(OFFLINE, i));
			if(r.nused[i] < NN) out.push_back(mk(AWAIT, i));
			if(reuse && !r.reused[i]) for(int k = 0; k < r.nused[i]; k++) if(r.pending[i][k] == 2) { out.push_back(mk(REAWAIT, i)); break; }
			out.push_back(mk(RUN, i));
		}
	}
	std::string show_class(uint32_t op) { static const char *nm[] = {"online", "offline", "quiescent_state", "await_barrier", "run", "await_barrier[node reused after its callback]"}; return std::string("qs.") + nm[op & 0xff]; }
	std::string show(uint32_t op) { return show_class(op) + "(a" + std::to_string(op >> 8) + ")"; }
	void covered(int x) { for(int i = 0; i < MAXA; i++) for(int k = 0; k < MAXN; k++) r.need[i][k] &= ~(1u << x); }
	void apply(uint32_t op) {
		g_h = this;
		uint32_t k = op & 0xff; int i = op >> 8;
		switch(k) {
		case ONLINE:
			if(!r.created[i]) { new(w.agents[i]) Agent(&dom()); r.created[i] = true; }   // the constructor goes online
			else agent(i).online();
			r.online[i] = true; break;
		case OFFLINE: agent(i).offline(); r.online[i] = false; covered(i); break;
		case QS: agent(i).quiescent_state(); covered(i); break;
		case AWAIT: {
			int n = r.nused[i]++;
			Node *nd = new(w.nodes[i][n]) Node; nd->agent = i; nd->idx = n; nd->on_grace_period = &on_grace;
			unsigned char mask = 0; for(int x = 0; x < NA; x++) if(r.online[x]) mask |= 1u << x;
			r.need[i][n] = mask; r.pending[i][n] = 1;
			agent(i).await_barrier(nd); break;
		}
		case REAWAIT: {
			// "once the callback starts the library no longer touches its node": the owner may hand the very same object
			// (not re-constructed: exactly the bytes the library left behind) to await_barrier() again
			int n = 0; while(r.pending[i][n] != 2) n++;
			AUNPOISON(w.nodes[i][n], sizeof(Node));
			Node *nd = &node(i, n);
			unsigned char mask = 0; for(int x = 0; x < NA; x++) if(r.online[x]) mask |= 1u << x;
			r.need[i][n] = mask; r.pending[i][n] = 1; r.reused[i] = 1;
			agent(i).await_barrier(nd); break;
		}
		case RUN: r.running = i; agent(i).run(); r.running = -1; break;
		}
		if(dom_mutex_held()) throw Violation{"C11", "qs:mutex-left-locked", "the domain mutex is still held after " + show(op) + " returned"};
	}
	bool dom_mutex_held() { return false; }   // the counting mutex notes imbalance itself; see final_check
	bool all_fired(int i) { for(int k = 0; k < r.nused[i]; k++) if(r.pending[i][k] == 1) return false; return true; }
	void check_state() {
		// bounded liveness as a state predicate: fair rounds on a snapshot
		bool anything = false;
		for(int i = 0; i < NA; i++) if(r.online[i] && !all_fired(i)) anything = true;
		if(!anything) return;
		World saved; Ref rs = r;
		AUNPOISON(&w, sizeof w);
		memcpy(&saved, &w, sizeof w);
		struct Restore { QsHarness &h; World &s; Ref &rs; ~Restore() { AUNPOISON(&h.w, sizeof h.w); memcpy(&h.w, &s, sizeof h.w); h.r = rs; h.repoison(); pending().reset(); } } restore{*this, saved, rs};
		repoison();
		for(int round = 0; round < 5; round++) {
			for(int i = 0; i < NA; i++) if(r.online[i]) { agent(i).quiescent_state(); covered(i); }
			for(int i = 0; i < NA; i++) if(r.created[i]) { r.running = i; agent(i).run(); r.running = -1; }
			raise_pending();
		}
		for(int i = 0; i < NA; i++) if(rs.online[i] && r.online[i] && !all_fired(i))
			throw Violation{"C11", "qs:grace-period-lost", "a callback of online agent " + std::to_string(i) + " did not fire after 5 fair rounds of quiescent_state() by every online agent and run() by every agent"};
		if(res) res->outcomes.insert("live");
	}
	void repoison() { for(int i = 0; i < MAXA; i++) for(int k = 0; k < MAXN; k++) if(r.pending[i][k] == 2) APOISON(w.nodes[i][k], sizeof(Node)); }
	void final_check() {}
	void canon(std::string &out) {
		AUNPOISON(&w, sizeof w);
		out.append((const char *)&w, sizeof w);
		repoison();
		out.append((const char *)&r, sizeof r);
	}
	void save(std::string &b) { b.clear(); canon(b); }
	void load(const std::string &b) {
		g_h = this;
		AUNPOISON(&w, sizeof w);
		memcpy(&w, b.data(), sizeof w); memcpy(&r, b.data() + sizeof w, sizeof r);
		repoison();
		pending().reset();
	}
};

// Liveness under churn: "if all online agents keep reporting quiescent states and the registering agent keeps calling
// run(), every registered callback is eventually invoked" also holds when that agent keeps REGISTERING new barriers (the
// fair rounds of the state predicate above never register anything, so an older barrier that is only ever overtaken by
// younger ones fires there in the end).  Deterministic script, 1-3 agents, every choice of the registering agent and of
// which other agents go offline/online in between: one new barrier per round, each round = every online agent passes a
// quiescent state, the registrar registers, every agent calls run().  A barrier must fire within 6 rounds of its
// registration (the implementation needs 2-3); none may fire early or twice (same oracle as the BFS harness).
struct ChurnNode : frg::qs_node { int idx; };
static int g_churn_fired[64]; static unsigned g_churn_need[64]; static int g_churn_running = -1, g_churn_registrar = 0;
static void churn_cb(frg::qs_node *qn) {
	ChurnNode *n = static_cast<ChurnNode *>(qn);
	if(g_churn_running != g_churn_registrar) note("C11", "qs:callback-outside-run", "a callback was invoked outside run() of the registering agent");
	if(g_churn_fired[n->idx]++) note("C11", "qs:callback-twice", "a callback was invoked twice");
	if(g_churn_need[n->idx]) note("C11", "qs:callback-before-grace-period", "a callback fired although an agent that was online at registration has not been inside quiescent_state() or offline since");
}
static InstResult churn() {
	InstResult r; r.name = "qs-churn"; r.complete = true; r.fixpoint = true;
	const int ROUNDS = 16, LIMIT = 6;
	for(int na = 1; na <= 3; na++) for(int reg = 0; reg < na; reg++) for(int flap = 0; flap < (na > 1 ? 3 : 1); flap++) {
		std::string h = std::to_string(na) + " agent(s), registrar a" + std::to_string(reg) + (flap == 1 ? ", another agent goes offline and online every third round" : flap == 2 ? ", another agent is offline during odd rounds" : "");
		try {
			pending().reset();
			alignas(16) static unsigned char ds[sizeof(Domain)], as[3][sizeof(Agent)], ns[ROUNDS + 1][sizeof(ChurnNode)];
			memset(ds, 0xA5, sizeof ds); memset(as, 0xA5, sizeof as); memset(ns, 0xA5, sizeof ns);
			Domain *d = new(ds) Domain;
			Agent *a[3]; bool on[3];
			for(int i = 0; i < na; i++) { a[i] = new(as[i]) Agent(d); on[i] = true; }
			int other = (reg + 1) % na;
			memset(g_churn_fired, 0, sizeof g_churn_fired); memset(g_churn_need, 0, sizeof g_churn_need); g_churn_registrar = reg;
			int born[ROUNDS + 1];
			auto covered = [&](int x) { for(auto &m : g_churn_need) m &= ~(1u << x); };
			for(int round = 0; round <= ROUNDS + LIMIT; round++) {
				if(na > 1 && flap == 1 && round % 3 == 2) { if(on[other]) { a[other]->offline(); on[other] = false; covered(other); } else { a[other]->online(); on[other] = true; } }
				if(na > 1 && flap == 2) { bool want = round % 2 == 0; if(on[other] && !want) { a[other]->offline(); on[other] = false; covered(other); } else if(!on[other] && want) { a[other]->online(); on[other] = true; } }
				for(int i = 0; i < na; i++) if(on[i]) { a[i]->quiescent_state(); covered(i); }
				if(round <= ROUNDS) {
					ChurnNode *n = new(ns[round]) ChurnNode; n->idx = round; n->on_grace_period = &churn_cb; born[round] = round;
					unsigned m = 0; for(int i = 0; i < na; i++) if(on[i]) m |= 1u << i;
					g_churn_need[round] = m;
					a[reg]->await_barrier(n);
				}
				for(int i = 0; i < na; i++) { g_churn_running = i; a[i]->run(); g_churn_running = -1; }
				raise_pending();
				for(int k = 0; k <= ROUNDS && k <= round; k++) if(!g_churn_fired[k] && round - born[k] >= LIMIT)
					throw Violation{"C11", "qs:grace-period-lost-under-churn", "the barrier registered in round " + std::to_string(k) + " has not fired " + std::to_string(LIMIT) + " rounds later, although every online agent passed a quiescent state and the registrar called run() in every round (it keeps registering one new barrier per round)"};
				r.evaluations++;
			}
			r.distinct++;
		} catch(const Violation &v) { r.add_violation(v, h); }
		catch(const Panic &p) { r.add_violation({"C11", "panic:qs-churn", p.text}, h); }
	}
	r.samples.push_back("1-3 agents x registrar x 3 presence patterns, 17 barriers registered one per round");
	return r;
}

static std::vector<Instance> instances(const std::string &tier) {
	bool th = tier == "thorough";
	std::vector<Instance> v;
	auto add = [&](int na, int nn, int depth) { BfsOptions o; o.max_depth = depth; v.push_back(bfs_instance<QsHarness>("qs-seq-A" + std::to_string(na) + "-N" + std::to_string(nn) + "-D" + std::to_string(depth), o, na, nn)); };
	if(const char *e = getenv("VERIF_QS_DEPTH")) { int d = atoi(e); add(1, 2, d + 4); add(2, 2, d); add(3, 1, d); add(3, 2, d); return v; }
	add(1, 2, th ? 28 : 24);
	add(2, 2, th ? 17 : 15);
	add(2, 3, th ? 16 : 14);
	add(3, 1, th ? 15 : 13);
	add(3, 2, th ? 14 : 12);
	// a domain that has been up for a long time: the counter crosses 2^32 during the histories
	{ BfsOptions o; o.max_depth = th ? 14 : 12; v.push_back(bfs_instance<QsHarness>("qs-seq-A2-N2-counter-near-2^32-D" + std::to_string(o.max_depth), o, 2, 2, false, (uint64_t(1) << 32) - 3)); }
	{ BfsOptions o; o.max_depth = th ? 20 : 16; v.push_back(bfs_instance<QsHarness>("qs-seq-A1-N2-counter-near-2^32-D" + std::to_string(o.max_depth), o, 1, 2, false, (uint64_t(1) << 32) - 5)); }
	// fired nodes handed back to await_barrier() unchanged
	{ BfsOptions o; o.max_depth = th ? 14 : 12; v.push_back(bfs_instance<QsHarness>("qs-seq-A1-N3-reuse-D" + std::to_string(o.max_depth), o, 1, 3, true)); }
	{ BfsOptions o; o.max_depth = th ? 12 : 10; v.push_back(bfs_instance<QsHarness>("qs-seq-A2-N2-reuse-D" + std::to_string(o.max_depth), o, 2, 2, true)); }
	Instance c; c.name = "qs-churn";
	c.run = [](const std::vector<CrashInfo> &) { return churn(); };
	c.replay = [](const std::string &) { InstResult r = churn(); for(auto &v : r.violations) printf("REPLAY-VIOLATION property=%s sig=%s: %s [%s]\n", v.prop.c_str(), v.sig.c_str(), v.msg.c_str(), v.history.c_str()); return (int)r.violations.size(); };
	v.push_back(c);
	return v;
}
int main(int argc, char **argv) { return harness_main(argc, argv, instances); }
