// C05: slab_pool with a scheduler-controlled mutex: every lock/unlock of a pool mutex is a scheduling
// point; thread scripts on shared size classes of a tiny configuration (3 objects of the largest
// class per slab).  Explored exhaustively up to a preemption bound, once with ASan + oracles and once
// under ThreadSanitizer.
#include "../engine/vsched.hpp"
// the spinlocks of frg/spinlock.hpp as the pool's Mutex: every __atomic builtin and spin hint becomes a scheduling point
#define __atomic_fetch_add(p, v, m) ::verif::hook_fetch_add(p, v, m)
#define __atomic_load_n(p, m) ::verif::hook_load_n(p, m)
#define __atomic_store_n(p, v, m) ::verif::hook_store_n(p, v, m)
#define __atomic_exchange_n(p, v, m) ::verif::hook_exchange_n(p, v, m)
#define __atomic_fetch_sub(p, v, m) ::verif::hook_fetch_sub(p, v, m)
#define __atomic_fetch_or(p, v, m) ::verif::hook_fetch_or(p, v, m)
#define __atomic_fetch_and(p, v, m) ::verif::hook_fetch_and(p, v, m)
#define __atomic_compare_exchange_n(p, e, d, w, ms, mf) ::verif::hook_compare_exchange_n(p, e, d, w, ms, mf)
#define __atomic_test_and_set(p, m) ::verif::hook_test_and_set(p, m)
#define __atomic_clear(p, m) ::verif::hook_clear(p, m)
#define __builtin_ia32_pause() ::verif::hook_pause()
#include <frg/spinlock.hpp>
#undef __atomic_fetch_add
#undef __atomic_load_n
#undef __atomic_store_n
#undef __atomic_exchange_n
#undef __atomic_fetch_sub
#undef __atomic_fetch_or
#undef __atomic_fetch_and
#undef __atomic_compare_exchange_n
#undef __atomic_test_and_set
#undef __atomic_clear
#undef __builtin_ia32_pause
#include <frg/slab.hpp>
#include <mutex>
#include <algorithm>

using namespace verif;

#if VERIF_ASAN
#define APOISON(p, n) __asan_poison_memory_region((p), (n))
#define AUNPOISON(p, n) __asan_unpoison_memory_region((p), (n))
#else
#define APOISON(p, n) ((void)0)
#define AUNPOISON(p, n) ((void)0)
#endif

static constexpr size_t ARENA = 1 << 20;
alignas(8192) static unsigned char arena[ARENA];
struct Region { uintptr_t base; size_t len; };
struct World {
	std::mutex mu;                       // the policy itself must be thread-safe; never contended under the scheduler
	std::vector<Region> regions;
	int maps = 0, unmaps = 0;
	size_t skew = 0;
	bool poisoning = false;              // the policy has poison hooks: fresh mappings start poisoned
};
static World W;

static uintptr_t arena_map(size_t len, size_t align) {
	if(vs_locks_held()) vs_fail("C05", "policy:map-under-lock", "Policy::map was called while the calling thread holds a pool mutex");
	std::lock_guard<std::mutex> g(W.mu);
	W.maps++;
	uintptr_t lo = (uintptr_t)arena;
	for(;;) {
		uintptr_t cand = lo;
		if(align > 1) { uintptr_t r = cand % align, want = W.skew % align; cand += (want + align - r) % align; }
		bool hit = false;
		for(auto &r : W.regions) if(cand < r.base + r.len && r.base < cand + len) { lo = r.base + r.len; hit = true; break; }
		if(!hit) {
			if(cand + len > (uintptr_t)arena + ARENA) { fprintf(stderr, "arena exhausted\n"); abort(); }
			W.regions.push_back({cand, len});
			AUNPOISON((void *)cand, len);
			memset((void *)cand, 0, len);
			if(W.poisoning) APOISON((void *)cand, len);
			return cand;
		}
	}
}
static void arena_unmap(uintptr_t base, size_t len) {
	if(vs_locks_held()) vs_fail("C05", "policy:unmap-under-lock", "Policy::unmap was called while the calling thread holds a pool mutex");
	int err = 2;
	{
		std::lock_guard<std::mutex> g(W.mu);
		W.unmaps++;
		for(size_t i = 0; i < W.regions.size(); i++) if(W.regions[i].base == base) {
			err = W.regions[i].len != len ? 1 : 0;
			APOISON((void *)base, W.regions[i].len);
			W.regions.erase(W.regions.begin() + i);
			break;
		}
	}
	// (never fail while holding the policy's own lock: the execution is abandoned by longjmp)
	if(err == 1) vs_fail("C03", "protocol:unmap-wrong-length", "unmap with a length different from the mapped one");
	if(err == 2) vs_fail("C03", "protocol:unmap-unknown-base", "unmap of a region that is not mapped");
}
template<bool Aligned, bool Poison = false>
struct Policy {
	static constexpr size_t pagesize = 256, slabsize = 4096, sb_size = 4096;
	static constexpr int num_buckets = 8;
	// KASAN-style hooks, backed by ASan's manual poisoning: a thread that touches a poisoned byte of a block it owns is an
	// ASan report in that schedule (in the ThreadSanitizer build the hooks only select the pool's poisoning code path)
	// Each hook is a scheduling point: the pool calls it without holding a lock, so another thread may run right there.
	static inline int hook_word = 0;
	void poison(void *p, size_t n) requires Poison { vs_point(VS_STORE, &hook_word); APOISON(p, n); }
	void unpoison(void *p, size_t n) requires Poison { vs_point(VS_STORE, &hook_word); AUNPOISON(p, n); }
	void unpoison_expand(void *p, size_t n) requires Poison { vs_point(VS_STORE, &hook_word); AUNPOISON(p, n); }
	uintptr_t map(size_t len, size_t align) requires Aligned { return arena_map(len, align); }
	uintptr_t map(size_t len) requires (!Aligned) { return arena_map(len, 4096); }
	void unmap(uintptr_t b, size_t l) { arena_unmap(b, l); }
};

// thread scripts
enum OpK { ALLOC, FREE, DEALLOC, REALLOC, SEND, RECV };
struct Op { OpK k; int slot; size_t size; int box; };
struct Script { std::vector<std::vector<Op>> threads; std::vector<Op> setup; int nslots = 8; };

struct Blk { uintptr_t p = 0; size_t req = 0, size = 0; int owner = -1; };
// C01 quantifies over interleaved histories too: when this harness runs for C01, the block-validity oracles report under C01
static const char *P01() { return wanted_prop() == "C01" ? "C01" : "C05"; }
// ... and likewise the content / footprint oracles under C02 and the page-accounting / region oracles under C03
static const char *P02() { return wanted_prop() == "C02" ? "C02" : "C05"; }
static const char *P03() { return wanted_prop() == "C03" ? "C03" : "C05"; }

template<bool Aligned, class Mx = VMutex, bool Poison = false>
struct MtHarness {
	using Pool = frg::slab_pool<Policy<Aligned, Poison>, Mx>;
	Script sc; size_t skew;
	Policy<Aligned, Poison> policy;
	alignas(64) unsigned char pool_store[sizeof(Pool)];
	Blk slots[VS_MAX_THREADS + 1][8];      // per thread (+ setup) slots
	std::vector<Blk> live;                  // every live block of every thread
	std::atomic<uintptr_t> box[4];          // mailboxes (real atomics: a real program would synchronise the hand-over)
	Blk boxblk[4];
	std::string log;
	MtHarness(Script s, size_t skew_) : sc(std::move(s)), skew(skew_) {}
	const char *prop() { const std::string &w = wanted_prop(); return w == "C01" ? "C01" : w == "C02" ? "C02" : w == "C03" ? "C03" : "C05"; }
	Pool &pool() { return *reinterpret_cast<Pool *>(pool_store); }
	int nthreads() { return (int)sc.threads.size(); }
	static unsigned char pat(int owner, uintptr_t a) { return (unsigned char)(0x40 + owner * 37 + (a - (uintptr_t)arena) * 11); }

	void setup() {
		AUNPOISON(arena, ARENA);
		W.regions.clear(); W.maps = W.unmaps = 0; W.skew = skew; W.poisoning = Poison;
		APOISON(arena, ARENA);
		memset(pool_store, 0xA5, sizeof pool_store); new(pool_store) Pool(policy);
		for(auto &row : slots) for(auto &b : row) b = Blk{};
		live.clear(); log.clear();
		for(auto &b : box) b.store(0, std::memory_order_relaxed);
		for(auto &op : sc.setup) run_op(VS_MAX_THREADS, op);
	}
	void check_block(uintptr_t p, size_t req, int who) {
		size_t want = req ? req : 1;
		size_t gs = pool().get_size((void *)p);
		if(gs < want) vs_fail(P01(), "mt:too-small", "block smaller than requested");
		bool inside = false;
		{ std::lock_guard<std::mutex> g(W.mu); for(auto &r : W.regions) if(p >= r.base && p + gs <= r.base + r.len) inside = true; }
		if(!inside) vs_fail(P01(), "mt:outside-mapped-memory", "block is not inside memory currently mapped by the pool");
		size_t al = 8; while(al < want && al < 256) al <<= 1;
		if(p % al) vs_fail(P01(), "mt:misaligned", "block misaligned");
#if !VERIF_TSAN
		for(auto &o : live) if(p < o.p + o.size && o.p < p + gs)
			vs_fail(P01(), "mt:block-handed-out-twice", "thread " + std::to_string(who) + " received a block that overlaps a block that is still live (owner " + std::to_string(o.owner) + ")");
#endif
	}
	void fill(const Blk &b) { for(size_t i = 0; i < b.req; i++) ((unsigned char *)b.p)[i] = pat(b.owner, b.p + i); }
	void verify(const Blk &b, const char *when) { for(size_t i = 0; i < b.req; i++) if(((unsigned char *)b.p)[i] != pat(b.owner, b.p + i)) vs_fail(P02(), std::string("mt:content-changed:") + when, "bytes of a live block changed while it was live"); }
	void add_live(const Blk &b) {
#if !VERIF_TSAN
		live.push_back(b);
#else
		(void)b;
#endif
	}
	void del_live(uintptr_t p) {
#if !VERIF_TSAN
		for(size_t i = 0; i < live.size(); i++) if(live[i].p == p) { live.erase(live.begin() + i); return; }
		vs_fail("C05", "harness:unknown-block", "harness bookkeeping lost a block");
#else
		(void)p;
#endif
	}
	void run_op(int me, const Op &op) {
		Blk &s = op.slot >= 100 ? slots[VS_MAX_THREADS][op.slot - 100] : slots[me][op.slot];   // slots >= 100: blocks allocated by the setup
		int tag = me == VS_MAX_THREADS ? 9 : me;
		switch(op.k) {
		case ALLOC: {
			void *p = pool().allocate(op.size);
			if(!p) vs_fail("C05", "mt:null", "allocate returned null although map never fails");
			check_block((uintptr_t)p, op.size, tag);
			s = Blk{(uintptr_t)p, op.size, pool().get_size(p), tag};
			fill(s); add_live(s); break;
		}
		case FREE: case DEALLOC: {
			verify(s, "before-free");
			memset((void *)s.p, 0, s.req);
			del_live(s.p);
			if(op.k == FREE) pool().free((void *)s.p); else pool().deallocate((void *)s.p, s.req);
			s = Blk{}; break;
		}
		case REALLOC: {
			verify(s, "before-realloc");
			Blk old = s;
			del_live(old.p);      // the pool may release it at any point during the call
			void *p = pool().realloc((void *)old.p, op.size);
			if(!p) vs_fail("C05", "mt:null", "realloc returned null although map never fails");
			if((uintptr_t)p != old.p) check_block((uintptr_t)p, op.size, tag);
			size_t keep = std::min(old.req, op.size);
			for(size_t i = 0; i < keep; i++) if(((unsigned char *)p)[i] != pat(old.owner, old.p + i)) vs_fail(P02(), "mt:realloc-content", "realloc lost the old contents");
			s = Blk{(uintptr_t)p, op.size, pool().get_size(p), tag};
			fill(s); add_live(s); break;
		}
		case SEND: {
			boxblk[op.box] = s;
			vs_point(VS_STORE, &box[op.box]);
			box[op.box].store(s.p, std::memory_order_release);
			s = Blk{}; break;
		}
		case RECV: {
			for(;;) {
				vs_point(VS_LOAD, &box[op.box]);
				uintptr_t p = box[op.box].load(std::memory_order_acquire);
				if(p) { s = boxblk[op.box]; break; }
				vs_point(VS_YIELD, &box[op.box]);
			}
			break;
		}
		}
	}
	void body(int tid) { for(auto &op : sc.threads[tid]) run_op(tid, op); }

	// end-state oracle + sequential epilogue (main thread)
	void finish() {
		for(auto &row : slots) for(auto &b : row) if(b.p) verify(b, "end");
		// no two live blocks overlap
		std::vector<Blk> all; for(auto &row : slots) for(auto &b : row) if(b.p) all.push_back(b);
		for(size_t i = 0; i < all.size(); i++) for(size_t j = i + 1; j < all.size(); j++) if(all[i].p < all[j].p + all[j].size && all[j].p < all[i].p + all[i].size) throw Violation{P01(), "mt:overlap-at-end", "two live blocks overlap at the end of the execution"};
		size_t used_mid = pool().numUsedPages();
		// free everything; the page counter must come back to "slabs only": every large region is returned
		size_t nlarge = 0; for(auto &b : all) if(b.size > 1024) nlarge++;
		for(auto &b : all) pool().free((void *)b.p);
		for(auto &r : W.regions) if(r.len != (Aligned ? 4096u : 8192u)) throw Violation{P03(), "mt:large-region-leaked", "a large region is still mapped after every block was freed"};
		size_t used_end = pool().numUsedPages();
		size_t slab_regions = W.regions.size();
		if(used_end > slab_regions * 17 || used_end + 1 < slab_regions * 12) throw Violation{P03(), "mt:page-counter", "numUsedPages() = " + std::to_string(used_end) + " with " + std::to_string(slab_regions) + " slabs mapped (counter drifted under concurrency)"};
		if(used_mid < used_end) throw Violation{P03(), "mt:page-counter", "page counter grew while freeing"};
		(void)nlarge;
		// the pool still works: fill a whole slab worth of the largest class plus one, all distinct
		int maps_before = W.maps; size_t regions_before = W.regions.size();
		std::vector<uintptr_t> got;
		for(int i = 0; i < 7; i++) { void *p = pool().allocate(1024); if(!p) throw Violation{"C05", "mt:epilogue-null", "allocation failed in the epilogue"}; for(auto q : got) if(q == (uintptr_t)p) throw Violation{P02(), "mt:epilogue-duplicate", "the epilogue received the same block twice (free list corrupted)"}; got.push_back((uintptr_t)p); memset(p, 0x5a, 1024); }
		// 7 objects need at most 3 slabs in total
		size_t slabs1024 = 0; for(auto &r : W.regions) { (void)r; slabs1024++; }
		if(W.regions.size() > regions_before + 3) throw Violation{P02(), "mt:epilogue-footprint", "the epilogue mapped more slabs than 7 objects can need (a slab with free objects was lost)"};
		for(auto q : got) pool().free((void *)q);
		log = "maps=" + std::to_string(maps_before) + " unmaps=" + std::to_string(W.unmaps);
	}
	std::string outcome() { return log; }
};

static Script mkscript(std::vector<std::vector<Op>> t, std::vector<Op> setup = {}) { Script s; s.threads = std::move(t); s.setup = std::move(setup); return s; }
#define A_(slot, size) Op{ALLOC, slot, size, 0}
#define F_(slot) Op{FREE, slot, 0, 0}
#define D_(slot) Op{DEALLOC, slot, 0, 0}
#define R_(slot, size) Op{REALLOC, slot, size, 0}
#define S_(slot, box) Op{SEND, slot, 0, box}
#define V_(slot, box) Op{RECV, slot, 0, box}

static std::vector<Instance> instances(const std::string &tier) {
	bool th = tier == "thorough";
	std::vector<Instance> v;
	auto add = [&](const std::string &name, int bound, Script s, bool aligned = true, size_t skew = 0) {
		SchedOptions o; o.bound = bound; o.horizon = 4000;
		std::string n = name + "-b" + std::to_string(bound);
		if(aligned) v.push_back(sched_instance<MtHarness<true>>(n, o, s, skew)); else v.push_back(sched_instance<MtHarness<false>>(n, o, s, skew));
	};
	// a ticket lock that has been through 2^32 - 1 acquisitions already: both counters stand at 0xFFFFFFFF, the next ticket
	// drawn wraps to 0 while the holder still has the all-ones ticket
	struct AgedTicket { frg::ticket_spinlock l; AgedTicket() { memset((void *)&l, 0xFF, sizeof l); } void lock() { l.lock(); } void unlock() { l.unlock(); } };
	auto add_aged = [&](const std::string &name, int bound, Script s) {
		SchedOptions o; o.bound = bound; o.horizon = 6000;
		v.push_back(sched_instance<MtHarness<true, AgedTicket>>(name + "-b" + std::to_string(bound), o, s, (size_t)0));
	};
	auto add_spin = [&](const std::string &name, int bound, Script s, bool ticket) {
		SchedOptions o; o.bound = bound; o.horizon = 6000;
		std::string n = name + "-b" + std::to_string(bound);
		if(ticket) v.push_back(sched_instance<MtHarness<true, frg::ticket_spinlock>>(n, o, s, (size_t)0)); else v.push_back(sched_instance<MtHarness<true, frg::simple_spinlock>>(n, o, s, (size_t)0));
	};
	int B = th ? 4 : 3;
	if(wanted_prop() == "C02") {
		// C02's content and reuse clauses across threads: frees and allocations on one slab, then the sequential epilogue
		// (a slab with free objects must still be found)
		int b = th ? 3 : 2;
		add("H2-last-object", b, mkscript({{A_(0, 1024)}, {A_(0, 1024)}, {F_(100)}}, {A_(0, 1024), A_(1, 1024), A_(2, 1024), F_(2)}));
		add("H7-full-slab-refill", b, mkscript({{F_(100), A_(0, 1024)}, {F_(101), A_(1, 600)}}, {A_(0, 1024), A_(1, 1024), A_(2, 1024)}));
		add("H4-realloc-across-classes", b, mkscript({{A_(0, 8), R_(0, 1024), F_(0)}, {A_(0, 1024), F_(0), A_(1, 8), D_(1)}}));
		return v;
	}
	if(wanted_prop() == "C03") {
		// C03's page accounting and region clauses across threads: large frames against each other and against a new slab
		int b = th ? 3 : 2;
		add("H5-large-vs-slab", b, mkscript({{A_(0, 1025), F_(0)}, {A_(0, 1025), F_(0)}, {A_(0, 1024)}}));
		add("H15-two-large-frees", b, mkscript({{F_(100)}, {F_(101)}}, {A_(0, 1025), A_(1, 4097)}));
		return v;
	}
	if(wanted_prop() == "C01") {
		// C01 over interleaved histories: the scripts in which blocks of one slab are handed out and taken back concurrently
		int b = th ? 3 : 2;
		add("H2-last-object", b, mkscript({{A_(0, 1024)}, {A_(0, 1024)}, {F_(100)}}, {A_(0, 1024), A_(1, 1024), A_(2, 1024), F_(2)}));
		add("H3-cross-thread-free", b, mkscript({{A_(0, 1024), S_(0, 0), A_(1, 1024), F_(1)}, {V_(0, 0), F_(0)}}));
		add("H7-full-slab-refill", b, mkscript({{F_(100), A_(0, 1024)}, {F_(101), A_(1, 600)}}, {A_(0, 1024), A_(1, 1024), A_(2, 1024)}));
		add("H11-free-vs-allocate-same-slab", th ? 4 : 3, mkscript({{F_(100)}, {A_(0, 1024), A_(1, 1024)}}, {A_(0, 1024), A_(1, 1024), F_(1)}));
		return v;
	}
	// H1: two threads find the class empty and both map a slab
	add("H1-both-map", B, mkscript({{A_(0, 1024), F_(0)}, {A_(0, 1024), F_(0)}}));
	// H2: one free object left in a full slab; two allocators race for it while a third thread frees into the slab
	add("H2-last-object", B, mkscript({{A_(0, 1024)}, {A_(0, 1024)}, {F_(100)}}, {A_(0, 1024), A_(1, 1024), A_(2, 1024), F_(2)}));
	// H3: cross-thread free through a mailbox while the allocating thread keeps allocating
	add("H3-cross-thread-free", B, mkscript({{A_(0, 1024), S_(0, 0), A_(1, 1024), F_(1)}, {V_(0, 0), F_(0)}}));
	// H4: realloc across classes against alloc/free in source and target class
	add("H4-realloc-across-classes", B, mkscript({{A_(0, 8), R_(0, 1024), F_(0)}, {A_(0, 1024), F_(0), A_(1, 8), D_(1)}}));
	// H5: large frames (tree mutex, page counter) against a small allocation that maps a slab
	add("H5-large-vs-slab", B, mkscript({{A_(0, 1025), F_(0)}, {A_(0, 1025), F_(0)}, {A_(0, 1024)}}));
	// H6: H1 with the one-argument map and a misaligned base
	add("H6-both-map-unaligned", B, mkscript({{A_(0, 1024), F_(0)}, {A_(0, 1024), F_(0)}}), false, 256);
	// H7: slab full -> two frees make it partial again while two allocations follow
	add("H7-full-slab-refill", B, mkscript({{F_(100), A_(0, 1024)}, {F_(101), A_(1, 600)}}, {A_(0, 1024), A_(1, 1024), A_(2, 1024)}));
	// H11: a free into a partial slab against two allocations from it (the freed block must not be linked in front of a block that is being handed out)
	add("H11-free-vs-allocate-same-slab", B, mkscript({{F_(100)}, {A_(0, 1024), A_(1, 1024)}}, {A_(0, 1024), A_(1, 1024), F_(1)}));
	// H14: a block shrunk in place into a smaller class and released through the sized deallocate, against an allocation from
	// the same slab (both must be serialised by the slab's own bucket mutex)
	add("H14-sized-deallocate-after-shrink", B, mkscript({{R_(100, 8), D_(100)}, {A_(0, 1024), F_(0)}}, {A_(0, 1024), A_(1, 1024)}));
	add("H15-two-large-frees", B, mkscript({{F_(100)}, {F_(101)}}, {A_(0, 1025), A_(1, 4097)}));
	// H12/H13: the same races under a poisoning policy: a block is poisoned by the thread that frees it and unpoisoned by the
	// thread that gets it next; the two must not cross
	{ SchedOptions o; o.bound = B; o.horizon = 4000;
	  v.push_back(sched_instance<MtHarness<true, VMutex, true>>("H12-poisoning-free-vs-allocate-same-slab-b" + std::to_string(B), o, mkscript({{F_(100)}, {A_(0, 1024), A_(1, 1024)}}, {A_(0, 1024), A_(1, 1024), F_(1)}), (size_t)0));
	  v.push_back(sched_instance<MtHarness<true, VMutex, true>>("H13-poisoning-cross-thread-free-b" + std::to_string(B), o, mkscript({{A_(0, 1024), S_(0, 0), A_(1, 600), F_(1)}, {V_(0, 0), F_(0), A_(1, 1024)}}), (size_t)0)); }
	// H10: four threads on one class (the property speaks of 2-8 threads); bound 1 keeps it small
	add("H10-four-threads", th ? 2 : 1, mkscript({{A_(0, 1024), F_(0)}, {A_(0, 1024), F_(0)}, {A_(0, 1024), D_(0)}, {A_(0, 600), F_(0)}}));
	// the pool over the library's own spinlocks (anchor spinlock.hpp): the lock words are scheduling points themselves, so the
	// happens-before edge between successive holders is the spinlock's, not the scheduler's
	add_spin("H1-both-map-ticket-spinlock", th ? 2 : 1, mkscript({{A_(0, 1024), F_(0)}, {A_(0, 1024), F_(0)}}), true);
	add_spin("H3-cross-thread-free-ticket-spinlock", th ? 2 : 1, mkscript({{A_(0, 1024), S_(0, 0), A_(1, 1024), F_(1)}, {V_(0, 0), F_(0)}}), true);
	add_aged("H1-both-map-ticket-spinlock-counters-about-to-wrap", th ? 2 : 1, mkscript({{A_(0, 1024), F_(0)}, {A_(0, 1024), F_(0)}}));
	add_spin("H1-both-map-simple-spinlock", th ? 5 : 4, mkscript({{A_(0, 1024), F_(0)}, {A_(0, 1024), F_(0)}}), false);
	if(th) {
		add("H1-both-map-all", 1000, mkscript({{A_(0, 1024), F_(0)}, {A_(0, 1024), F_(0)}}));
		add("H8-three-allocators", 2, mkscript({{A_(0, 1024), F_(0)}, {A_(0, 1024), F_(0)}, {A_(0, 1024), F_(0)}}));
		add("H9-two-classes", 3, mkscript({{A_(0, 8), A_(1, 1024), F_(0), F_(1)}, {A_(0, 1024), A_(1, 8), F_(1), F_(0)}}));
	}
	return v;
}
int main(int argc, char **argv) { return harness_main(argc, argv, instances); }
