// C12b: unique_lock / shared_lock / QS lock_guard keep acquire and release balanced on every path.
// BFS to fixpoint over guard operations on 3 guard slots and 2 counting mutexes.
#include "../engine/seqmc.hpp"
#include <frg/mutex.hpp>
#include <frg/qs.hpp>

using namespace verif;

// Cnt = int: an ordinary mutex object (4-byte aligned).  Cnt = signed char: a mutex type with alignof == 1 (like frg::simple_spinlock,
// a single bool); the harnesses place such mutexes at ODD addresses - a guard must not borrow bits of the mutex pointer.
template<class Cnt>
struct CMutexT {
	Cnt excl = 0, shared = 0;
	void lock() { if(excl || shared) note("C12", "guard:double-acquire", "lock() on a mutex that is already held"); excl++; }
	void unlock() { if(excl != 1) note("C12", "guard:release-of-free-mutex", "unlock() on a mutex that is not exclusively held"); else excl--; }
	void lock_shared() { if(excl) note("C12", "guard:double-acquire", "lock_shared() on an exclusively held mutex"); shared++; }
	void unlock_shared() { if(shared < 1) note("C12", "guard:release-of-free-mutex", "unlock_shared() on a mutex that is not share-held"); else shared--; }
};
using CMutex = CMutexT<int>;
using BMutex = CMutexT<signed char>;
static_assert(alignof(BMutex) == 1);
static uint32_t mk(uint32_t k, uint32_t a, uint32_t b = 0) { return k | a << 8 | b << 12; }

template<class G, bool Shared, class MX = CMutex>
struct GuardHarness : HarnessBase {
	static constexpr int NS = 3;
	struct alignas(8) Mutexes { char pad = 0; MX m[2]; } mm;   // (for a byte-aligned MX both mutexes sit at odd addresses)
	MX (&m)[2] = mm.m;
	alignas(16) unsigned char store[NS][sizeof(G)];
	// model: slot -> constructed?, mutex index (-1 none), locked?
	struct M { bool alive = false; int mtx = -1; bool locked = false; bool operator==(const M &) const = default; } ref[NS];
	const char *name;
	GuardHarness(const char *n) : name(n) {}
	const char *prop() const { return "C12"; }
	G &g(int a) { return *reinterpret_cast<G *>(store[a]); }
	int holders(int mi) { int c = 0; for(auto &r : ref) if(r.alive && r.locked && r.mtx == mi) c++; return c; }
	int count(int mi) { return Shared ? m[mi].shared : m[mi].excl; }
	void reset() { pending().reset(); for(auto &x : m) x = MX{}; for(auto &r : ref) r = M{}; memset(store, 0xA5, sizeof store); }
	enum { C_LOCKING, C_DEFER, C_ADOPT, C_DEFAULT, LOCK, UNLOCK, MOVE_CONS, MOVE_ASSIGN, SWAP, DESTROY };
	void ops(std::vector<uint32_t> &out) {
		for(uint32_t a = 0; a < NS; a++) {
			if(!ref[a].alive) {
				for(uint32_t mi = 0; mi < 2; mi++) {
					if(Shared || holders(mi) == 0) out.push_back(mk(C_LOCKING, a, mi));
					out.push_back(mk(C_DEFER, a, mi));
					if(Shared || holders(mi) == 0) out.push_back(mk(C_ADOPT, a, mi));
				}
				out.push_back(mk(C_DEFAULT, a));
				for(uint32_t b = 0; b < NS; b++) if(b != a && ref[b].alive) out.push_back(mk(MOVE_CONS, a, b));
			} else {
				if(ref[a].mtx >= 0 && !ref[a].locked && (Shared || holders(ref[a].mtx) == 0)) out.push_back(mk(LOCK, a));
				if(ref[a].locked) out.push_back(mk(UNLOCK, a));
				for(uint32_t b = 0; b < NS; b++) if(b != a && ref[b].alive) { out.push_back(mk(MOVE_ASSIGN, a, b)); if(a < b) out.push_back(mk(SWAP, a, b)); }
				out.push_back(mk(DESTROY, a));
			}
		}
	}
	std::string show_class(uint32_t op) { static const char *nm[] = {"ctor(mutex)", "ctor(dont_lock)", "ctor(adopt_lock)", "ctor()", "lock", "unlock", "move_construct", "move_assign", "swap", "destroy"}; return std::string(name) + "." + nm[op & 0xff]; }
	std::string show(uint32_t op) { return show_class(op) + "(slot" + std::to_string((op >> 8) & 0xf) + "," + std::to_string(op >> 12) + ")"; }
	void apply(uint32_t op) {
		uint32_t k = op & 0xff, a = (op >> 8) & 0xf, b = op >> 12;
		switch(k) {
		// (for unique_lock, mutex 1 is taken through the frg::guard() helper functions)
		case C_LOCKING: if constexpr(!Shared) { if(b == 1) { new(store[a]) G(frg::guard(&m[b])); ref[a] = {true, (int)b, true}; break; } } new(store[a]) G(m[b]); ref[a] = {true, (int)b, true}; break;
		case C_DEFER: if constexpr(!Shared) { if(b == 1) { new(store[a]) G(frg::guard(frg::dont_lock, &m[b])); ref[a] = {true, (int)b, false}; break; } } new(store[a]) G(frg::dont_lock, m[b]); ref[a] = {true, (int)b, false}; break;
		case C_ADOPT: if(Shared) m[b].lock_shared(); else m[b].lock(); new(store[a]) G(frg::adopt_lock, m[b]); ref[a] = {true, (int)b, true}; break;
		case C_DEFAULT: new(store[a]) G; ref[a] = {true, -1, false}; break;
		case LOCK: g(a).lock(); ref[a].locked = true; break;
		case UNLOCK: g(a).unlock(); ref[a].locked = false; break;
		case MOVE_CONS: new(store[a]) G(std::move(g(b))); ref[a] = ref[b]; ref[b] = {true, -1, false}; break;
		case MOVE_ASSIGN: {
			// the old lock of the destination is released by the assignment, the source gives up ownership
			g(a) = std::move(g(b)); ref[a] = ref[b]; ref[b] = {true, -1, false}; break;
		}
		case SWAP: { using std::swap; swap(g(a), g(b)); std::swap(ref[a], ref[b]); break; }
		case DESTROY: g(a).~G(); ref[a] = M{}; break;
		}
	}
	void check_state() {
		for(int mi = 0; mi < 2; mi++) {
			if(count(mi) != holders(mi)) throw Violation{"C12", std::string(name) + ":balance", "mutex " + std::to_string(mi) + " is held " + std::to_string(count(mi)) + " time(s) but " + std::to_string(holders(mi)) + " guard(s) own it (double or missing release)"};
			if((Shared ? m[mi].excl : m[mi].shared) != 0) throw Violation{"C12", std::string(name) + ":wrong-call", "the guard used the wrong acquire/release call of the mutex"};
		}
		for(int a = 0; a < NS; a++) if(ref[a].alive) {
			if(g(a).is_locked() != ref[a].locked) throw Violation{"C12", std::string(name) + ":is_locked", "is_locked() disagrees with the model"};
			for(int mi = 0; mi < 2; mi++) if(g(a).protects(&m[mi]) != (ref[a].locked && ref[a].mtx == mi)) throw Violation{"C12", std::string(name) + ":protects", "protects() disagrees with the model"};
		}
		if(res) res->outcomes.insert(std::to_string(count(0)) + "/" + std::to_string(count(1)));
	}
	void final_check() {
		for(int a = 0; a < NS; a++) if(ref[a].alive) { g(a).~G(); ref[a] = M{}; }
		raise_pending();
		for(int mi = 0; mi < 2; mi++) if(m[mi].excl || m[mi].shared) throw Violation{"C12", std::string(name) + ":left-locked", "a mutex is still held after every guard was destroyed"};
	}
	void canon(std::string &out) { for(auto &r : ref) { out.push_back(r.alive ? 'A' : '-'); out.push_back('0' + r.mtx + 1); out.push_back(r.locked ? 'L' : 'u'); } for(auto &x : m) { out.push_back('0' + x.excl); out.push_back('0' + x.shared); } }
};

// the QS lock_guard: construct (locks), unlock, lock, destroy
template<class MX = CMutex>
struct QsGuardHarness : HarnessBase {
	using G = frg::lock_guard<MX>;
	struct alignas(8) Mutexes { char pad = 0; MX m[2]; } mm;
	MX (&m)[2] = mm.m;
	alignas(16) unsigned char store[2][sizeof(G)];
	struct M { bool alive = false; int mtx = -1; bool locked = false; } ref[2];
	const char *prop() const { return "C12"; }
	G &g(int a) { return *reinterpret_cast<G *>(store[a]); }
	int holders(int mi) { int c = 0; for(auto &r : ref) if(r.alive && r.locked && r.mtx == mi) c++; return c; }
	void reset() { pending().reset(); for(auto &x : m) x = MX{}; for(auto &r : ref) r = M{}; }
	void ops(std::vector<uint32_t> &out) {
		for(uint32_t a = 0; a < 2; a++) {
			if(!ref[a].alive) { for(uint32_t mi = 0; mi < 2; mi++) if(!holders(mi)) out.push_back(mk(0, a, mi)); }
			else { if(ref[a].locked) out.push_back(mk(1, a)); else if(!holders(ref[a].mtx)) out.push_back(mk(2, a)); out.push_back(mk(3, a)); }
		}
	}
	std::string show_class(uint32_t op) { static const char *nm[] = {"ctor", "unlock", "lock", "destroy"}; return std::string("qs.lock_guard.") + nm[op & 0xff]; }
	std::string show(uint32_t op) { return show_class(op) + "(slot" + std::to_string((op >> 8) & 0xf) + "," + std::to_string(op >> 12) + ")"; }
	void apply(uint32_t op) {
		uint32_t k = op & 0xff, a = (op >> 8) & 0xf, b = op >> 12;
		switch(k) {
		case 0: new(store[a]) G(m[b]); ref[a] = {true, (int)b, true}; break;
		case 1: g(a).unlock(); ref[a].locked = false; break;
		case 2: g(a).lock(); ref[a].locked = true; break;
		case 3: g(a).~G(); ref[a] = M{}; break;
		}
	}
	void check_state() {
		for(int mi = 0; mi < 2; mi++) if(m[mi].excl != holders(mi)) throw Violation{"C12", "qs.lock_guard:balance", "mutex " + std::to_string(mi) + " is held " + std::to_string(m[mi].excl) + " time(s) but " + std::to_string(holders(mi)) + " guard(s) own it"};
		if(res) res->outcomes.insert(std::to_string(m[0].excl) + "/" + std::to_string(m[1].excl));
	}
	void final_check() { for(int a = 0; a < 2; a++) if(ref[a].alive) { g(a).~G(); ref[a] = M{}; } raise_pending(); for(auto &x : m) if(x.excl) throw Violation{"C12", "qs.lock_guard:left-locked", "a mutex is still held after every guard was destroyed"}; }
	void canon(std::string &out) { for(auto &r : ref) { out.push_back(r.alive ? 'A' : '-'); out.push_back('0' + r.mtx + 1); out.push_back(r.locked ? 'L' : 'u'); } for(auto &x : m) out.push_back('0' + x.excl); }
};

static std::vector<Instance> instances(const std::string &) {
	std::vector<Instance> v;
	v.push_back(bfs_instance<GuardHarness<frg::unique_lock<CMutex>, false>>("unique_lock", BfsOptions{}, "unique_lock"));
	v.push_back(bfs_instance<GuardHarness<frg::shared_lock<CMutex>, true>>("shared_lock", BfsOptions{}, "shared_lock"));
	v.push_back(bfs_instance<QsGuardHarness<>>("qs-lock_guard", BfsOptions{}));
	// the same three guards over a byte-aligned mutex type whose objects sit at odd addresses
	v.push_back(bfs_instance<GuardHarness<frg::unique_lock<BMutex>, false, BMutex>>("unique_lock-byte-mutex-odd-address", BfsOptions{}, "unique_lock<byte mutex>"));
	v.push_back(bfs_instance<GuardHarness<frg::shared_lock<BMutex>, true, BMutex>>("shared_lock-byte-mutex-odd-address", BfsOptions{}, "shared_lock<byte mutex>"));
	v.push_back(bfs_instance<QsGuardHarness<BMutex>>("qs-lock_guard-byte-mutex-odd-address", BfsOptions{}));
	return v;
}
int main(int argc, char **argv) { return harness_main(argc, argv, instances); }
