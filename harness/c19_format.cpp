// C19: printf_format + do_printf_* against glibc snprintf over the whole ISO-defined directive grammar;
// fmt() against an independent interpreter of its documented spec grammar; stack_buffer_logger chunking.
#include "../engine/enumerate.hpp"
#include <frg/printf.hpp>
#include <frg/formatting.hpp>
#include <frg/logging.hpp>
#include <cstdarg>
#include <climits>
#include <cinttypes>
#include <string>
#include <vector>
#include <sstream>
#include <frg/std_compat.hpp>

using namespace verif;

// ------------------------------------------------------------------------------------------ printf driver
struct StrSink {
	std::string out;
	void append(char c) { out.push_back(c); }
	void append(const char *s) { out.append(s); }
	void append(const char *s, size_t n) { out.append(s, n); }
};
struct Agent {
	StrSink *sink; frg::va_struct *vsp;
	frg::expected<frg::format_error> operator()(char c) { sink->append(c); return frg::success; }
	frg::expected<frg::format_error> operator()(const char *c, size_t n) { sink->append(c, n); return frg::success; }
	frg::expected<frg::format_error> operator()(char t, frg::format_options opts, frg::printf_size_mod szmod) {
		switch(t) {
		case 'c': case 'p': case 's': frg::do_printf_chars(*sink, t, opts, szmod, vsp); break;
		case 'd': case 'i': case 'o': case 'x': case 'X': case 'b': case 'B': case 'u': frg::do_printf_ints(*sink, t, opts, szmod, vsp); break;
		case 'f': case 'F': case 'g': case 'G': case 'e': case 'E': frg::do_printf_floats(*sink, t, opts, szmod, vsp); break;
		default: throw Violation{"C19", "printf:unexpected-terminal", std::string("agent called with unexpected conversion '") + t + "'"};
		}
		return frg::success;
	}
};
static std::string frg_printf(const char *format, ...) {
	va_list args; va_start(args, format);
	frg::va_struct vs; frg::arg arg_list[NL_ARGMAX + 1]; vs.arg_list = arg_list; va_copy(vs.args, args);
	StrSink sink;
	auto res = frg::printf_format(Agent{&sink, &vs}, format, &vs);
	va_end(vs.args); va_end(args);
	if(!res) throw Violation{"C19", "printf:error-result", "printf_format returned an error"};
	return sink.out;
}
static uint64_t g_cases = 0;
static std::string argstr(const char *s) { return std::string("\"") + (s ? s : "(null)") + "\""; }
static std::string argstr(void *p) { char b[32]; snprintf(b, sizeof b, "%p", p); return b; }
template<class T> static std::string argstr(T v) { if constexpr(std::is_signed_v<T>) return std::to_string((long long)v); else return std::to_string((unsigned long long)v); }
// one comparison; classify = signature suffix
template<class... Ts>
static void cmp(const std::string &cls, const char *format, Ts... args) {
	g_cases++;
	char ref[512];
#pragma GCC diagnostic push
#pragma GCC diagnostic ignored "-Wformat"
#pragma GCC diagnostic ignored "-Wformat-security"
#pragma GCC diagnostic ignored "-Wformat-nonliteral"
	int n = snprintf(ref, sizeof ref, format, args...);
#pragma GCC diagnostic pop
	if(n < 0 || n >= (int)sizeof ref) return;
	std::string got = frg_printf(format, args...);
	if(got != std::string(ref, n)) {
		std::string a;
		((a += " " + argstr(args)), ...);
		throw Violation{"C19", "printf-mismatch:" + cls, std::string("format \"") + format + "\" args" + a + ": frigg \"" + got + "\" ISO/glibc \"" + ref + "\""};
	}
}

struct Flags { bool minus, plus, space, hash, zero, apos; };
static std::string flag_str(const Flags &f) { std::string s; if(f.minus) s += '-'; if(f.plus) s += '+'; if(f.space) s += ' '; if(f.hash) s += '#'; if(f.zero) s += '0'; if(f.apos) s += '\''; return s; }

static const char *LEN[] = {"", "hh", "h", "l", "ll", "z", "t", "j"};

template<class F> static void each_value_signed(int len, F &&f) {
	auto run = [&](auto... vs) { (f(vs), ...); };
	switch(len) {
	case 0: run(0, 1, -1, 42, -42, INT_MAX, INT_MIN, INT_MAX - 1, INT_MIN + 1); break;
	case 1: run(0, 1, -1, 42, -42, 127, -128, 126, -127, 300, -300); break;                    // hh: converted to signed char
	case 2: run(0, 1, -1, 42, -42, 32767, -32768, 32766, -32767, 70000, -70000); break;       // h
	default: run(0L, 1L, -1L, 42L, -42L, LONG_MAX, LONG_MIN, LONG_MAX - 1, LONG_MIN + 1, (long)INT_MAX + 1, (long)INT_MIN - 1); break;
	}
}
template<class F> static void each_value_unsigned(int len, F &&f) {
	auto run = [&](auto... vs) { (f(vs), ...); };
	switch(len) {
	case 0: run(0u, 1u, 42u, UINT_MAX, UINT_MAX - 1, 0x80000000u, 8u, 16u); break;
	case 1: run(0u, 1u, 42u, 255u, 254u, 128u, 0x1ffu, 8u); break;
	case 2: run(0u, 1u, 42u, 65535u, 65534u, 32768u, 0x1ffffu, 8u); break;
	default: run(0ul, 1ul, 42ul, ULONG_MAX, ULONG_MAX - 1, 0x8000000000000000ul, (unsigned long)UINT_MAX + 1, 8ul); break;
	}
}

// all integer directives for one (conversion, length) pair
static InstResult run_ints(const std::vector<CrashInfo> &cr, char conv, int len, bool th) {
	std::string name = std::string("printf-%") + LEN[len] + conv;
	Enumerator E(name, "C19", cr);
	bool is_signed = conv == 'd' || conv == 'i';
	std::vector<int> widths = {-1}, precs = {-1};
	if(th) { for(int w = 0; w <= 70; w++) widths.push_back(w); for(int p = 0; p <= 70; p++) precs.push_back(p); }
	else { for(int w : {0, 1, 2, 3, 5, 8, 11, 20, 64, 70}) widths.push_back(w); for(int p : {0, 1, 2, 3, 5, 8, 11, 20, 64, 70}) precs.push_back(p); }
	precs.push_back(-2);   // "." alone
	for(int fb = 0; fb < 64; fb++) {
		Flags f{bool(fb & 1), bool(fb & 2), bool(fb & 4), bool(fb & 8), bool(fb & 16), bool(fb & 32)};
		if(f.hash && (is_signed || conv == 'u')) continue;         // undefined in ISO C
		if(f.apos && !(is_signed || conv == 'u')) continue;        // ' is defined for d,i,u only
		std::string fs = flag_str(f);
		E.eval("%" + fs + "[w][.p]" + LEN[len] + conv, "printf.int", [&] {
			for(int w : widths) for(int p : precs) for(int star = 0; star < 4; star++) {
				bool wstar = star & 1, pstar = star & 2;
				if((wstar && w < 0) || (pstar && p < 0)) continue;
				if(!th && star && (w > 11 || p > 11)) continue;
				std::string d = "%" + fs;
				if(wstar) d += "*"; else if(w >= 0) d += std::to_string(w);
				if(pstar) d += ".*"; else if(p >= 0) d += "." + std::to_string(p); else if(p == -2) d += ".";
				d += LEN[len]; d += conv;
				std::string cls = std::string(1, conv) + ":flags=" + fs + (w >= 0 ? ":w" : "") + (p != -1 ? ":p" : "");
				auto with_value = [&](auto v) {
					if(wstar && pstar) cmp(cls, d.c_str(), w, p, v);
					else if(wstar) cmp(cls, d.c_str(), w, v);
					else if(pstar) cmp(cls, d.c_str(), p, v);
					else cmp(cls, d.c_str(), v);
				};
				if(is_signed) each_value_signed(len, with_value); else each_value_unsigned(len, with_value);
			}
		});
	}
	// negative '*' arguments: width < 0 is the '-' flag plus |width|; precision < 0 is "no precision"
	E.eval(std::string("negative * arguments %") + LEN[len] + conv, "printf.int-star-negative", [&] {
		for(const char *fl : {"", "0", "+", "-"}) for(int w : {-1, -5, -12}) {
			std::string d = std::string("%") + fl + "*" + LEN[len] + conv, d2 = std::string("%") + fl + ".*" + LEN[len] + conv, d3 = std::string("%") + fl + "6.*" + LEN[len] + conv;
			auto v1 = [&](auto v) { cmp(std::string(1, conv) + ":negative-star-width", d.c_str(), w, v); };
			auto v2 = [&](auto v) { cmp(std::string(1, conv) + ":negative-star-precision", d2.c_str(), w, v); cmp(std::string(1, conv) + ":negative-star-precision", d3.c_str(), w, v); };
			if(is_signed) { each_value_signed(len, v1); each_value_signed(len, v2); } else { each_value_unsigned(len, v1); each_value_unsigned(len, v2); }
		}
	});
	E.res.evaluations += g_cases; E.res.distinct += g_cases; E.res.counters["printf_directive_evaluations"] = g_cases;
	return E.finish();
}

static InstResult run_chars(const std::vector<CrashInfo> &cr, bool th) {
	Enumerator E("printf-chars", "C19", cr);
	GuardBuf g;
	std::vector<int> nums = {-1, 0, 1, 2, 3, 5, 8, 11, 20}; if(th) { nums = {-1}; for(int i = 0; i <= 70; i++) nums.push_back(i); }
	E.eval("%[-][w]c", "printf.c", [&] {
		for(int minus = 0; minus < 2; minus++) for(int w : nums) for(int star = 0; star < 2; star++) for(int ch : {(int)'a', (int)'Z', (int)' ', (int)'%', 0x7f, 1}) {
			if(star && w < 0) continue;
			if(!star && w == 0) continue;   // a literal 0 here would be the 0 flag, undefined for c
			std::string d = std::string("%") + (minus ? "-" : "") + (star ? "*" : w >= 0 ? std::to_string(w) : "") + "c";
			if(star) cmp("c", d.c_str(), w, ch); else cmp("c", d.c_str(), ch);
		}
	});
	std::vector<std::string> strs = {"", "a", "hello", "hello world, this is a longer string of 47 chars.", std::string("ab\0cd", 5)};
	E.eval("%[-][w][.p]s", "printf.s", [&] {
		for(auto &s : strs) for(int minus = 0; minus < 2; minus++) for(int w : nums) for(int p : nums) for(int star = 0; star < 4; star++) {
			bool wstar = star & 1, pstar = star & 2;
			if((wstar && w < 0) || (pstar && p < 0)) continue;
			if(!wstar && w == 0) continue;   // would be the 0 flag, undefined for s
			std::string d = std::string("%") + (minus ? "-" : "") + (wstar ? "*" : w >= 0 ? std::to_string(w) : "") + (pstar ? ".*" : p >= 0 ? "." + std::to_string(p) : "") + "s";
			const char *arg = g.place_cstr(s);          // NUL is the last mapped byte
			if(wstar && pstar) cmp("s", d.c_str(), w, p, arg); else if(wstar) cmp("s", d.c_str(), w, arg); else if(pstar) cmp("s", d.c_str(), p, arg); else cmp("s", d.c_str(), arg);
			// a source that is NOT terminated within its buffer: legal when the precision bounds the read
			if(p >= 0 && (size_t)p <= s.size() && s.find('\0') == std::string::npos) {
				const char *raw = g.place(s.data(), s.size());
				std::string want = s.substr(0, p), pad((w > (int)want.size()) ? w - want.size() : 0, ' ');
				std::string expect = minus ? want + pad : pad + want;
				g_cases++;
				std::string got = wstar && pstar ? frg_printf(d.c_str(), w, p, raw) : wstar ? frg_printf(d.c_str(), w, raw) : pstar ? frg_printf(d.c_str(), p, raw) : frg_printf(d.c_str(), raw);
				if(got != expect) throw Violation{"C19", "printf-mismatch:s:unterminated-source", "format \"" + d + "\" with an exact-size source: frigg \"" + got + "\" expected \"" + expect + "\""};
			}
		}
	});
	E.eval("%p %% text", "printf.p", [&] {
		for(uintptr_t v : {(uintptr_t)0, (uintptr_t)1, (uintptr_t)0xdeadbeef, (uintptr_t)0x7fffffffffffull, ~(uintptr_t)0, (uintptr_t)0x8000000000000000ull}) {
			g_cases++;
			char ref[64]; snprintf(ref, sizeof ref, "0x%lx", (unsigned long)v);
			std::string got = frg_printf("%p", (void *)v);
			if(got != ref) throw Violation{"C19", "printf-mismatch:p", std::string("%p of ") + ref + " printed \"" + got + "\""};
			got = frg_printf("<%p>%%|%d", (void *)v, 7);
			if(got != std::string("<") + ref + ">%|7") throw Violation{"C19", "printf-mismatch:p-in-text", "text around %p / %% lost or reordered: \"" + got + "\""};
		}
		cmp("text", "plain text only");
		cmp("text", "%%");
		cmp("text", "a%%b%%%dc%%", 5);
		cmp("text", "%d%d%d", 1, 2, 3);
		cmp("text", "x%sy%cz%uw", "S", 'C', 9u);
	});
	// positional arguments n$ (n in 1..9): every permutation of 2-3 same-class arguments, repeated positions
	E.eval("positional n$", "printf.positional", [&] {
		int a[3] = {11, -22, 33};
		int perm2[][2] = {{1, 2}, {2, 1}, {1, 1}, {2, 2}};
		for(auto &p : perm2) for(const char *conv : {"d", "i", "5d", "-5d", "05d", "+d", "x", "u"}) {
			std::string d = "%" + std::to_string(p[0]) + "$" + conv + " %" + std::to_string(p[1]) + "$" + conv;
			cmp("positional", d.c_str(), a[0], a[1]);
		}
		int idx[3] = {1, 2, 3};
		do {
			std::string d = "%" + std::to_string(idx[0]) + "$d|%" + std::to_string(idx[1]) + "$d|%" + std::to_string(idx[2]) + "$d";
			cmp("positional", d.c_str(), a[0], a[1], a[2]);
			std::string e = "%" + std::to_string(idx[0]) + "$d|%" + std::to_string(idx[0]) + "$d|%" + std::to_string(idx[2]) + "$d|%" + std::to_string(idx[1]) + "$d";
			cmp("positional", e.c_str(), a[0], a[1], a[2]);
		} while(std::next_permutation(idx, idx + 3));
		cmp("positional", "%2$s-%1$s", "one", "two");
		cmp("positional", "%1$s-%2$s-%1$s", "one", "two");
		cmp("positional", "%9$d %1$d", 1, 2, 3, 4, 5, 6, 7, 8, 9);
		cmp("positional", "%3$ld %2$ld %1$ld", 1L << 40, -(1L << 41), 7L);
	});
	E.res.evaluations += g_cases; E.res.distinct += g_cases;
	return E.finish();
}

// ------------------------------------------------------------------------------------------ fmt()
// Independent interpreter of the documented grammar  ([0-9]+)?(:0?[0-9]*[bcdioXx]?)?
struct Spec { bool ok = false; bool has_pos = false; size_t pos = 0; bool zero = false; int width = 0; char conv = 0; };
static Spec parse_spec(const std::string &s) {
	Spec r; size_t i = 0;
	while(i < s.size() && s[i] >= '0' && s[i] <= '9') { r.has_pos = true; r.pos = r.pos * 10 + (s[i] - '0'); i++; }
	if(i == s.size()) { r.ok = true; return r; }
	if(s[i] != ':') return r;
	i++;
	if(i < s.size() && s[i] == '0') { r.zero = true; i++; }
	while(i < s.size() && s[i] >= '0' && s[i] <= '9') { r.width = r.width * 10 + (s[i] - '0'); i++; }
	if(i < s.size() && strchr("bcdioXx", s[i])) { r.conv = s[i]; i++; }
	r.ok = i == s.size();
	return r;
}
static std::string render_int(long long v, const Spec &sp) {
	int radix = sp.conv == 'x' || sp.conv == 'X' ? 16 : sp.conv == 'o' ? 8 : sp.conv == 'b' ? 2 : 10;
	unsigned long long mag = v < 0 ? 0ull - (unsigned long long)v : (unsigned long long)v;
	std::string digits; const char *dg = sp.conv == 'X' ? "0123456789ABCDEF" : "0123456789abcdef";
	do { digits.insert(digits.begin(), dg[mag % radix]); mag /= radix; } while(mag);
	std::string sign = v < 0 ? "-" : "";
	size_t len = sign.size() + digits.size();
	std::string pad(len < (size_t)sp.width ? sp.width - len : 0, sp.zero ? '0' : ' ');
	return sp.zero ? sign + pad + digits : pad + sign + digits;
}
template<class... Ts> static std::string do_fmt(const std::string &f, Ts... args) {
	StrSink sink;
	frg::format(frg::fmt(frg::string_view(f.data(), f.size()), args...), sink);
	return sink.out;
}
static InstResult run_fmt(const std::vector<CrashInfo> &cr, bool th, int shard, int nshards) {
	Enumerator E("fmt-" + std::to_string(shard), "C19", cr);
	size_t maxlen = th ? 5 : 4;
	std::vector<std::string> specs;
	for_all_strings("019:bcdioxXh", maxlen, [&](const std::string &s) { specs.push_back(s); });
	uint64_t cases = 0;
	int triples[][3] = {{0, 1, -1}, {42, INT_MIN, INT_MAX}, {7, 255, -255}};
	for(size_t si = shard; si < specs.size(); si += nshards) {
		const std::string &s = specs[si];
		E.eval("{" + s + "}", "fmt.spec", [&] {
			Spec sp = parse_spec(s);
			// 'c' applied to a non-character argument and non-decimal radices of negative numbers are not
			// documented; they are exercised for safety under C20 only.
			if(!(sp.ok && sp.conv == 'c')) for(auto &t : triples) for(int nargs = 1; nargs <= 3; nargs++) {
				std::string f = "A{" + s + "}B{}C";
				std::string got = nargs == 1 ? do_fmt(f, t[0]) : nargs == 2 ? do_fmt(f, t[0], t[1]) : do_fmt(f, t[0], t[1], t[2]);
				// expected
				auto one = [&](const std::string &raw, size_t defpos, const Spec &p) -> std::optional<std::string> {
					if(!p.ok) return "{" + raw + "}";
					size_t pos = p.has_pos ? p.pos : defpos;
					if(pos >= (size_t)nargs) return "{" + raw + "}";
					long long v = t[pos];
					if(p.conv == 'c') return std::nullopt;
					if(v < 0 && p.conv && p.conv != 'd' && p.conv != 'i') return std::nullopt;
					return render_int(v, p);
				};
				auto e1 = one(s, 0, sp), e2 = one("", 1, Spec{true});
				cases++;
				if(!e1 || !e2) continue;
				std::string want = "A" + *e1 + "B" + *e2 + "C";
				if(got != want) throw Violation{"C19", std::string("fmt-mismatch:") + (sp.ok ? (sp.zero ? "zero-fill" : "valid-spec") : "malformed-spec"), "fmt(\"" + f + "\", " + std::to_string(t[0]) + (nargs > 1 ? "," + std::to_string(t[1]) : "") + (nargs > 2 ? "," + std::to_string(t[2]) : "") + ") = \"" + got + "\" expected \"" + want + "\""};
			}
			// character and string arguments
			if(sp.ok && !sp.has_pos && sp.conv == 'c') { cases++; std::string got = do_fmt("<{" + s + "}>", 'a'); if(got != "<a>") throw Violation{"C19", "fmt-mismatch:char", "fmt {" + s + "} of 'a' = \"" + got + "\""}; }
			// a char argument is a small integer unless the conversion is c: every value of the type, both signs
			if(sp.ok && !sp.has_pos) for(int cv : {0, 1, 97, 127, -1, -42, -127, -128}) {
				if(cv == 0 && sp.conv == 'c') continue;    // a NUL byte in the output: nothing to compare through c_str-free sinks either way
				if(cv < 0 && sp.conv && !strchr("dic", sp.conv)) continue;   // radix of a negative number: not documented (C20 covers safety)
				cases++;
				std::string got = do_fmt("<{" + s + "}>", (char)cv);
				std::string want = "<" + (sp.conv == 'c' ? std::string(1, (char)cv) : render_int(cv, sp)) + ">";
				if(got != want) throw Violation{"C19", std::string("fmt-mismatch:char-") + (cv < 0 ? "negative" : "value"), "fmt {" + s + "} of char(" + std::to_string(cv) + ") = \"" + got + "\" expected \"" + want + "\""};
			}
			if(sp.ok && !sp.has_pos) { cases++; std::string got = do_fmt("<{" + s + "}>", (const char *)"str"); if(got != "<str>") throw Violation{"C19", "fmt-mismatch:cstr", "fmt {" + s + "} of \"str\" = \"" + got + "\""}; }
		});
	}
	if(shard == 0) E.eval("malformed shapes", "fmt.shape", [&] {
		struct { const char *f; const char *want; } shapes[] = {
			{"{", "{"}, {"abc{", "abc{"}, {"{{", "{"}, {"{{}", "{}"}, {"a}b", "a}b"}, {"{0", "{0"}, {"{:x", "{:x"}, {"x{1}y", "x{1}y"}, {"{9}", "{9}"},
			{"{0}{0}", "55"}, {"{}{1}", "5{1}"}, {"no args", "no args"}, {"", ""}, {"{:dx}", "{:dx}"}, {"{: 4}", "{: 4}"}, {"{-1}", "{-1}"}, {"{0:}", "5"}, {"{:}", "5"}};
		for(auto &sh : shapes) { cases++; std::string got = do_fmt(sh.f, 5); if(got != sh.want) throw Violation{"C19", "fmt-mismatch:shape", std::string("fmt(\"") + sh.f + "\", 5) = \"" + got + "\" expected \"" + sh.want + "\""}; }
		cases++; if(do_fmt("{}") != "{}" || do_fmt("x{0}y") != "x{0}y") throw Violation{"C19", "fmt-mismatch:no-args", "fmt with no arguments must echo its specs"};
		// numbers that do not fit: a width beyond INT_MAX or a position beyond SIZE_MAX makes the spec out of range -> echoed
		for(const char *n : {"2147483648", "2147483649", "21474836485", "4294967296", "9223372036854775808", "18446744073709551616", "99999999999999999999999"}) {
			for(std::string f : {std::string("{:") + n + "}", std::string("{:0") + n + "d}", std::string("{:") + n + "x}"}) { cases++; std::string got = do_fmt(f, 7); if(got != f) throw Violation{"C19", "fmt-mismatch:out-of-range-width", "fmt(\"" + f + "\", 7) = \"" + got.substr(0, 60) + "\" but a width that does not fit must be echoed"}; }
		}
		for(const char *n : {"18446744073709551616", "18446744073709551617", "184467440737095516160", "99999999999999999999999"}) {
			std::string f = std::string("{") + n + "}"; cases++; std::string got = do_fmt(f, 7, 8); if(got != f) throw Violation{"C19", "fmt-mismatch:out-of-range-position", "fmt(\"" + f + "\", 7, 8) = \"" + got.substr(0, 60) + "\" but a position that does not fit must be echoed"};
		}
		for(const char *n : {"2", "4294967296", "18446744073709551615"}) { std::string f = std::string("{") + n + "}"; cases++; std::string got = do_fmt(f, 7, 8); if(got != f) throw Violation{"C19", "fmt-mismatch:out-of-range-position", "fmt(\"" + f + "\", 7, 8) must echo an out-of-range position"}; }
		// several specs in ONE format string: each is rendered from the defaults, independent of the specs before it
		{
			const char *sp[] = {"", ":x", ":X", ":o", ":b", ":d", ":08x", ":4", ":06", ":Xq", ":c"};
			for(const char *s1 : sp) for(const char *s2 : sp) for(const char *s3 : {"", ":x", ":5"}) {
				if(parse_spec(s1).conv == 'c' || parse_spec(s2).conv == 'c') continue;   // c with an int argument: not documented (C20 covers its safety)
				cases++;
				std::string f = std::string("{") + s1 + "}|{" + s2 + "}|{" + s3 + "}|{}";
				std::string got = do_fmt(f, 0xbeef, 0xbeef, 0xbeef, (const void *)0xabcd);
				auto one = [&](const char *sx) -> std::string {
					Spec p = parse_spec(sx);
					if(!p.ok) return std::string("{") + sx + "}";
					return render_int(0xbeef, p);
				};
				std::string want = one(s1) + "|" + one(s2) + "|" + one(s3) + "|0xabcd";
				if(got != want) throw Violation{"C19", "fmt-mismatch:spec-state-leaks", "fmt(\"" + f + "\", 0xbeef, 0xbeef, 0xbeef, (void*)0xabcd) = \"" + got + "\" expected \"" + want + "\" (a spec is rendered with state left over from an earlier one)"};
			}
		}
		// long and unsigned arguments, wide values
		cases++; if(do_fmt("{:x} {:b} {:o} {}", 0xfffffffffffffffful, 5u, 8ul, -9223372036854775807L - 1) != "ffffffffffffffff 101 10 -9223372036854775808") throw Violation{"C19", "fmt-mismatch:wide", "64-bit values rendered wrongly"};
		cases++; if(do_fmt("{:020}|{:20}", 123456789012345678L, 42) != "00123456789012345678|                  42") throw Violation{"C19", "fmt-mismatch:wide-width", "wide fields rendered wrongly"};
	});
	E.res.evaluations += cases; E.res.distinct += cases;
	return E.finish();
}


// ------------------------------------------------------------------------------------------ ' flag under a locale with grouping
// ISO C leaves ' to the locale (POSIX: "the integer portion of a decimal conversion shall be formatted with
// thousands' grouping characters" as LC_NUMERIC's grouping/thousands_sep prescribe).  do_printf_ints takes
// that locale as a parameter; in the C locale (covered above) it groups nothing.  Reference: lconv grouping
// semantics - each byte is a group size counted from the right, the last one repeats, CHAR_MAX ends grouping.
struct AgentL {
	StrSink *sink; frg::va_struct *vsp; frg::locale_options lo;
	frg::expected<frg::format_error> operator()(char c) { sink->append(c); return frg::success; }
	frg::expected<frg::format_error> operator()(const char *c, size_t n) { sink->append(c, n); return frg::success; }
	frg::expected<frg::format_error> operator()(char t, frg::format_options opts, frg::printf_size_mod szmod) {
		frg::do_printf_ints(*sink, t, opts, szmod, vsp, lo);
		return frg::success;
	}
};
static std::string frg_printf_l(frg::locale_options lo, const char *format, ...) {
	va_list args; va_start(args, format);
	frg::va_struct vs; frg::arg arg_list[NL_ARGMAX + 1]; vs.arg_list = arg_list; va_copy(vs.args, args);
	StrSink sink;
	auto res = frg::printf_format(AgentL{&sink, &vs, lo}, format, &vs);
	va_end(vs.args); va_end(args);
	if(!res) throw Violation{"C19", "printf:error-result", "printf_format returned an error"};
	return sink.out;
}
static std::string group_ref(const std::string &digits, const std::string &grouping, const std::string &sep) {
	std::string out; size_t gi = 0; int left = grouping.empty() ? -1 : (signed char)grouping[0];
	if(left <= 0 || left == CHAR_MAX) left = -1;
	for(size_t i = digits.size(); i-- > 0;) {
		out.insert(out.begin(), digits[i]);
		if(left > 0 && --left == 0 && i) {
			out.insert(0, sep);
			if(gi + 1 < grouping.size()) gi++;
			left = (signed char)grouping[gi];
			if(left <= 0 || left == CHAR_MAX) left = -1;
		}
	}
	return out;
}
static InstResult run_grouping(const std::vector<CrashInfo> &cr, bool th) {
	Enumerator E("printf-grouping", "C19", cr);
	std::vector<std::string> groupings = {"\3", "\3\2", "\1", "\2\3\1", std::string("\3") + char(CHAR_MAX), "\2", "\4\1", "\377", ""};
	std::vector<std::string> seps = {",", "", "::"};
	std::vector<unsigned long long> mags = {0};
	{ unsigned long long v = 0; for(int d = 1; d <= 19; d++) { v = v * 10 + (d % 10 ? d % 10 : 7); mags.push_back(v); } mags.push_back(ULLONG_MAX); mags.push_back(LLONG_MAX); mags.push_back(1000); mags.push_back(999); mags.push_back(100000); mags.push_back(999999); }
	std::vector<int> widths = {-1, 0, 1, 4, 5, 7, 8, 12, 30}, precs = {-1, 0, 1, 3, 4, 9, 25};
	if(th) { widths.clear(); for(int w = -1; w <= 32; w++) widths.push_back(w); precs.clear(); for(int p = -1; p <= 28; p++) precs.push_back(p); }
	for(auto &grp : groupings) for(auto &sep : seps) {
		std::string gname; for(unsigned char c : grp) gname += "\\" + std::to_string(c);
		E.eval("grouping=\"" + gname + "\" sep=\"" + sep + "\"", "printf.grouping", [&] {
			// exact-size heap copies: a read in front of or behind either string is an ASan report
			char *g = (char *)malloc(grp.size() + 1); memcpy(g, grp.c_str(), grp.size() + 1);
			char *sp = (char *)malloc(sep.size() + 1); memcpy(sp, sep.c_str(), sep.size() + 1);
			char *dp = (char *)malloc(2); memcpy(dp, ".", 2);
			frg::locale_options lo(dp, sp, g);
			for(int fb = 0; fb < 16; fb++) {
				Flags f{bool(fb & 1), bool(fb & 2), bool(fb & 4), false, bool(fb & 8), true};
				std::string fs = flag_str(f);
				for(int w : widths) for(int p : precs) for(int conv = 0; conv < 3; conv++) for(unsigned long long m : mags) for(int neg = 0; neg < (conv < 2 ? 2 : 1); neg++) {
					if(conv < 2 && m > (unsigned long long)LLONG_MAX) continue;
					std::string d = "%" + fs; if(w >= 0) d += std::to_string(w); if(p >= 0) d += "." + std::to_string(p);
					d += "ll"; d += "diu"[conv];
					g_cases++;
					std::string got = conv < 2 ? frg_printf_l(lo, d.c_str(), neg ? -(long long)m : (long long)m) : frg_printf_l(lo, d.c_str(), m);
					// reference, built from the parts ISO C defines
					std::string digits = (p == 0 && m == 0) ? "" : std::to_string(m);
					bool lead = p > (int)digits.size();            // precision adds leading zeros: grouped or not is not specified
					if(lead) digits.insert(0, p - digits.size(), '0');
					std::string sign = conv == 2 ? "" : (neg && m) || (neg && !m && false) ? "-" : f.plus ? "+" : f.space ? " " : "";
					if(conv < 2 && neg && m) sign = "-";
					std::string body = group_ref(digits, grp, sep);
					bool zero = f.zero && !f.minus && p < 0;
					std::string cls = std::string("grouping:flags=") + fs + (w >= 0 ? ":w" : "") + (p >= 0 ? ":p" : "");
					auto bad = [&](const std::string &what, const std::string &ref) {
						throw Violation{"C19", "printf-mismatch:" + cls + ":" + what, "format \"" + d + "\" value " + (neg ? "-" : "") + std::to_string(m) + " grouping \"" + gname + "\" thousands_sep \"" + sep + "\": frigg \"" + got + "\" expected \"" + ref + "\""};
					};
					if(!lead && !zero) {
						std::string ref = sign + body;
						if((int)ref.size() < w) { if(f.minus) ref.append(w - ref.size(), ' '); else ref.insert(0, w - ref.size(), ' '); }
						if(got != ref) bad("exact", ref);
					} else {
						// only what every reading agrees on: same sign and digits in order, separators only between digits, field at least width wide
						std::string strip, want = sign + std::to_string(m);
						std::string t = got;
						if(!sep.empty()) for(size_t at; (at = t.find(sep)) != std::string::npos;) {
							if(at == 0 || at + sep.size() >= t.size() || !isdigit((unsigned char)t[at - 1]) || !isdigit((unsigned char)t[at + sep.size()])) bad("separator-not-between-digits", want);
							t.erase(at, sep.size());
						}
						size_t a = 0; while(a < t.size() && t[a] == ' ' && !(sign == " " && a + 1 < t.size() && t[a + 1] != ' ')) a++;
						size_t b = t.size(); while(b > a && t[b - 1] == ' ') b--;
						t = t.substr(a, b - a);
						// drop leading zeros after the sign
						size_t s0 = sign.size(); if(t.compare(0, s0, sign) != 0) bad("sign", want);
						size_t z = s0; while(z + 1 < t.size() && t[z] == '0') z++;
						strip = sign + t.substr(z);
						if(p == 0 && m == 0) { if(t != sign) bad("digits", sign); }
						else if(strip != want) bad("digits", want);
						if(w > 0 && (int)got.size() < w) bad("narrower-than-width", want);
						if(!sep.empty() && (int)got.size() > std::max<int>(w, (int)(sign.size() + group_ref(digits, grp, sep).size() + (zero ? 0 : 0))) && !zero) bad("wider-than-needed", want);
					}
				}
			}
			free(g); free(sp); free(dp);
		});
	}
	E.res.evaluations += g_cases; E.res.distinct += g_cases; E.res.counters["printf_directive_evaluations"] = g_cases;
	return E.finish();
}

// ------------------------------------------------------------------------------------------ logger
struct ChunkSink {
	std::vector<std::string> *chunks; int *begun; int *finalized;
	void operator()(const char *msg) { chunks->push_back(msg); }
	void begin() { (*begun)++; }
	void finalize(bool done) { (*finalized) += done ? 1 : 100; }
};
template<size_t Limit> static void logger_test(Enumerator &E) {
	for(size_t len = 0; len <= 3 * Limit + 2; len++) E.eval("logger<" + std::to_string(Limit) + "> len=" + std::to_string(len), "logger", [&] {
		std::string msg; for(size_t i = 0; i < len; i++) msg.push_back("abcdefghijklmnopqrstuvwxyz"[i % 26]);
		for(int mode = 0; mode < 3; mode++) {
			std::vector<std::string> chunks; int begun = 0, fin = 0;
			std::string expect;
			{
				frg::stack_buffer_logger<ChunkSink, Limit> logger(ChunkSink{&chunks, &begun, &fin});
				auto item = logger();
				if(mode == 0) { for(char c : msg) item << frg::char_fmt(c); expect = msg; }
				else if(mode == 1) { item << msg.c_str(); expect = msg; }
				else { item << msg.c_str() << 1234567 << msg.c_str() << -89; expect = msg + "1234567" + msg + "-89"; }
				item << frg::endlog;
			}
			std::string all; for(auto &c : chunks) { all += c; if(c.size() >= Limit) throw Violation{"C19", "logger:chunk-too-long", "a chunk of " + std::to_string(c.size()) + " chars was emitted with Limit " + std::to_string(Limit)}; }
			if(all != expect) throw Violation{"C19", "logger:text-lost", "logger<" + std::to_string(Limit) + "> delivered \"" + all + "\" for \"" + expect + "\""};
			if(begun != 1 || fin != 1) throw Violation{"C19", "logger:begin-finalize", "begin()/finalize(true) not called exactly once"};
		}
	});
}


// The other sinks of logging.hpp: output_to(container) for std::string / std::vector<char> / frg::string and
// to(ostream): the same pieces must arrive complete and in order in each of them.
template<class MakeSink, class Read> static void sink_case(Enumerator &E, const std::string &name, MakeSink mk, Read read) {
	for(size_t len = 0; len <= 40; len++) E.eval(name + " len=" + std::to_string(len), "sinks", [&] {
		std::string msg; for(size_t i = 0; i < len; i++) msg.push_back("abcdefghijklmnopqrstuvwxyz"[i % 26]);
		std::string expect = msg + "|-89|" + msg + "|00ff|x|1234567|" + "18446744073709551615|-9223372036854775808" + "|0x1234|0x0|ff|" + msg + "|a\\n\\x{1}\\\\|" + msg;
		static const int fmt_ff = 255;
		frg::string<frg::stl_allocator> fs(msg.c_str());
		std::string got = mk([&](auto &&out) { out << msg.c_str() << "|" << -89 << "|" << frg::string_view(msg.data(), msg.size()) << "|" << frg::fmt("{:04x}", 255) << "|" << frg::char_fmt('x') << "|" << 1234567u << "|" << 18446744073709551615ull << "|" << (-9223372036854775807ll - 1)
			<< "|" << (const void *)0x1234 << "|" << nullptr << "|" << frg::hex_fmt<int>(fmt_ff) << "|" << fs << "|" << frg::escape_fmt("a\n\x01\\", 4) << "|" << std::string_view(msg); });
		(void)read;
		if(got != expect) throw Violation{"C19", "sinks:text-lost:" + name, name + " received \"" + got + "\" for \"" + expect + "\""};
	});
}
static InstResult run_sinks(const std::vector<CrashInfo> &cr) {
	Enumerator E("sinks", "C19", cr);
	sink_case(E, "output_to(std::string)", [](auto body) { std::string c; auto o = frg::output_to(c); body(o); return c; }, 0);
	sink_case(E, "output_to(std::vector<char>)", [](auto body) { std::vector<char> c; auto o = frg::output_to(c); body(o); return std::string(c.begin(), c.end()); }, 0);
	sink_case(E, "output_to(frg::string)", [](auto body) { frg::string<frg::stl_allocator> c; auto o = frg::output_to(c); body(o); return std::string(c.data(), c.size()); }, 0);
	sink_case(E, "to(std::ostringstream)", [](auto body) { std::ostringstream c; auto o = frg::to(c); body(o); return c.str(); }, 0);
	return E.finish();
}

static std::vector<Instance> instances(const std::string &tier) {
	bool th = tier == "thorough";
	std::vector<Instance> v;
	auto add = [&](const std::string &name, std::function<InstResult(const std::vector<CrashInfo> &)> f) {
		Instance i; i.name = name; i.run = f;
		i.replay = [f](const std::string &) { InstResult r = f({}); for(auto &x : r.violations) printf("REPLAY-VIOLATION property=%s sig=%s: %s [%s]\n", x.prop.c_str(), x.sig.c_str(), x.msg.c_str(), x.history.c_str()); return (int)r.violations.size(); };
		v.push_back(i);
	};
	for(char conv : {'d', 'i', 'u', 'o', 'x', 'X'}) for(int len = 0; len < 8; len++) {
		if(!th && conv == 'i' && len > 1) continue;    // i is an alias of d: quick covers its default and hh forms
		add(std::string("printf-%") + LEN[len] + conv, [=](const std::vector<CrashInfo> &cr) { return run_ints(cr, conv, len, th); });
	}
	add("printf-grouping", [=](const std::vector<CrashInfo> &cr) { return run_grouping(cr, th); });
	add("sinks", [=](const std::vector<CrashInfo> &cr) { return run_sinks(cr); });
	add("printf-chars", [=](const std::vector<CrashInfo> &cr) { return run_chars(cr, th); });
	int NS = th ? 16 : 8;
	for(int s = 0; s < NS; s++) add("fmt-" + std::to_string(s), [=](const std::vector<CrashInfo> &cr) { return run_fmt(cr, th, s, NS); });
	add("logger", [=](const std::vector<CrashInfo> &cr) { Enumerator E("logger", "C19", cr); logger_test<2>(E); logger_test<3>(E); logger_test<4>(E); logger_test<8>(E); logger_test<128>(E); return E.finish(); });
	return v;
}
int main(int argc, char **argv) { return harness_main(argc, argv, instances); }
